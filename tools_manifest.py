#!/usr/bin/env python3
"""Regenerates MANIFEST.json from specs/manifest_src.json (claims) + properties.jsonl (ids). Keeps not_applicable current."""
import json, subprocess
props=[json.loads(l) for l in open('/verif/properties.jsonl')]
src=json.load(open('/verif/specs/manifest_src.json'))
hooks=subprocess.run("git -C /repo log --format=%H --grep='^verif hook' ",shell=True,capture_output=True,text=True).stdout.split()
m={"version":1,
 "setup_cmd":"cd /verif/govc && GOFLAGS=-mod=mod GOPROXY=off GOSUMDB=off GOTOOLCHAIN=local go build -o ../bin/govc .",
 "hooks":{"guard":"verif","enable":"govc loads /repo with -tags=verif; the only hooks are comment-only contract files <pkg>/zz_verif_contracts.go (//go:build verif), which add no code","baseline_off_cmd":"cd /repo && GOFLAGS=-mod=mod go test -vet=off -count=1 -timeout 25m ./...","source_commits":hooks,"add_only":True},
 "engines":[{"name":"govc","path":"/verif/govc","serves_properties":sorted(src["claims"].keys()),"kind_free_text":"self-written deductive verifier for Go: go/packages+go/ssa (naive form) of /repo's working tree, contracts as //@ comments in guarded comment-only files, weakest-precondition style VC generation (block predicates, loop/stream invariants, ghost traces), discharged by a z3-new/z3/cvc5 portfolio; counterexamples replayed with go test -overlay"}],
 "checks":[], "not_applicable":[], "notes":src.get("notes","")}
for p in props:
    pid=p["id"]
    if pid in src["claims"]:
        c=src["claims"][pid]
        m["checks"].append({"property_id":pid,
          "quick_cmd":f"./check {pid} --tier quick","thorough_cmd":f"./check {pid} --tier thorough",
          "evidence_file":f"/verif/evidence/{pid}.json",
          "replay_cmd_template":"cat {path}",
          "engine":"govc",
          "level_claimed":{"category":"proof","text":c["text"],"design_ref":c.get("design_ref","DESIGN.md §6 "+pid)},
          "level_note":c["note"],
          "technique":c.get("technique","contract-based deductive verification: VCs generated from go/ssa of the real functions under //@ contracts, discharged by z3/cvc5")})
    else:
        m["not_applicable"].append({"property_id":pid,"reason":src["not_applicable"].get(pid,"check not built yet (build in progress); see DESIGN.md")})
json.dump(m,open('/verif/MANIFEST.json','w'),indent=1)
print(len(m["checks"]),"checks;",len(m["not_applicable"]),"not applicable")

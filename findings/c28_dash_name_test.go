package manager

// Demonstration for the C28 defect repaired by "fix: discover installed plugins under their full name":
// a plugin installed as octosql-plugin-my-db was listed as "db".
// Run: cd /repo && go test -overlay <(echo '{"Replace":{"/repo/plugins/manager/zz_c28_demo_test.go":"/verif/findings/c28_dash_name_test.go"}}') ./plugins/manager -run TestC28DashName

import (
	"os"
	"path/filepath"
	"testing"
)

func TestC28DashName(t *testing.T) {
	dir := t.TempDir()
	if err := os.MkdirAll(filepath.Join(dir, "core", "octosql-plugin-my-db", "0.1.0"), 0755); err != nil {
		t.Fatal(err)
	}
	if err := os.MkdirAll(filepath.Join(dir, "core", "octosql-plugin-my-db", "0.10.0"), 0755); err != nil {
		t.Fatal(err)
	}
	if err := os.MkdirAll(filepath.Join(dir, "core", "octosql-plugin-my-db", "0.2.0"), 0755); err != nil {
		t.Fatal(err)
	}
	t.Setenv("OCTOSQL_PLUGIN_DIR", dir)
	m := &PluginManager{}
	ps, err := m.ListInstalledPlugins()
	if err != nil {
		t.Fatal(err)
	}
	if len(ps) != 1 || ps[0].Reference.Name != "my-db" || ps[0].Reference.Repository != "core" {
		t.Fatalf("installed as my-db, discovered as %+v", ps)
	}
	if ps[0].Versions[0].Number.String() != "0.10.0" {
		t.Fatalf("highest version first expected, got %v", ps[0].Versions[0].Number)
	}
}

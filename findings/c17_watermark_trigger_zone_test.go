package execution

// Demonstration for the defect repaired by "fix: watermark trigger keys compare event times as instants":
// watermarkTriggerKey.Less compared the two time.Time values with ==, which also compares the location pointer and
// the monotonic reading. Two keys with the same instant in different zones were then neither Less than the other,
// whatever their group keys — the btree treats them as one key, so the second KeyReceived replaced the first and
// the first key was never triggered.
// Run: cd /repo && go test -vet=off -overlay <(echo '{"Replace":{"/repo/execution/zz_c17_demo_test.go":"/verif/findings/c17_watermark_trigger_zone_test.go"}}') ./execution -run TestC17WatermarkTriggerZone

import (
	"testing"
	"time"

	"github.com/cube2222/octosql/octosql"
)

func TestC17WatermarkTriggerZone(t *testing.T) {
	instant := time.Date(2021, 6, 1, 12, 0, 0, 0, time.UTC)
	other := instant.In(time.FixedZone("X", 3600)) // the same instant
	if !instant.Equal(other) {
		t.Fatal("setup")
	}
	tr := NewWatermarkTriggerPrototype(0)()
	tr.KeyReceived(GroupKey{octosql.NewTime(instant), octosql.NewString("a")})
	tr.KeyReceived(GroupKey{octosql.NewTime(other), octosql.NewString("b")})
	tr.WatermarkReceived(instant.Add(time.Second))
	got := tr.Poll()
	if len(got) != 2 {
		t.Fatalf("two distinct keys at or below the watermark, %d triggered: %v", len(got), got)
	}
}

package batch

// Demonstration for the defect repaired by "fix: the table outputs report a failing final write":
// `octosql "SELECT ..." -o batch_table > /dev/full` exited 0 and printed nothing, because OutputPrinter.Run discarded
// the error of the final flush of the live writer.
// Run: cd /repo && go test -vet=off -overlay <(echo '{"Replace":{"/repo/outputs/batch/zz_c06_demo_test.go":"/verif/findings/c06_table_flush_error_test.go"}}') ./outputs/batch -run TestC06TableFlushError

import (
	"context"
	"errors"
	"io"
	"testing"
	"time"

	"github.com/gosuri/uilive"

	"github.com/cube2222/octosql/execution"
	"github.com/cube2222/octosql/octosql"
	"github.com/cube2222/octosql/outputs/formats"
	"github.com/cube2222/octosql/physical"
)

type fullDisk struct{}

func (fullDisk) Write(p []byte) (int, error) { return 0, errors.New("no space left on device") }

type oneRow struct{}

func (oneRow) Run(ctx execution.ExecutionContext, produce execution.ProduceFn, metaSend execution.MetaSendFn) error {
	return produce(execution.ProduceFromExecutionContext(ctx), execution.NewRecord([]octosql.Value{octosql.NewInt(1)}, false, time.Time{}))
}

func TestC06TableFlushError(t *testing.T) {
	saved := uilive.Out
	uilive.Out = fullDisk{}
	defer func() { uilive.Out = saved }()
	schema := physical.NewSchema([]physical.SchemaField{{Name: "x", Type: octosql.Int}}, -1)
	p := NewOutputPrinter(oneRow{}, nil, nil, nil, true, schema, func(w io.Writer) Format { return formats.NewTableFormatter(w) }, false)
	err := p.Run(execution.ExecutionContext{Context: context.Background(), VariableContext: nil})
	if err == nil {
		t.Fatal("stdout is full, Run returned nil")
	}
}

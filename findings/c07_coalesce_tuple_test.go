package execution

// Demonstration for the defect repaired by "fix: COALESCE over tuples no longer indexes the (empty) list part of a
// tuple value": ObjectLayoutFixer.fixLayout read value.List[i] in its Tuple case, so `SELECT COALESCE((1, 2), (3, 4))`
// crashed the process with "index out of range [0] with length 0".
// Run: cd /repo && go test -vet=off -overlay <(echo '{"Replace":{"/repo/execution/zz_c07_demo_test.go":"/verif/findings/c07_coalesce_tuple_test.go"}}') ./execution -run TestC07CoalesceTuple

import (
	"testing"

	"github.com/cube2222/octosql/octosql"
)

func TestC07CoalesceTuple(t *testing.T) {
	tupleType := octosql.Type{TypeID: octosql.TypeIDTuple}
	tupleType.Tuple.Elements = []octosql.Type{octosql.Int, octosql.Int}
	fixer := NewObjectLayoutFixer(tupleType, []octosql.Type{tupleType, tupleType})
	in := octosql.NewTuple([]octosql.Value{octosql.NewInt(1), octosql.NewInt(2)})
	out := fixer.FixLayout(0, in)
	if out.TypeID != octosql.TypeIDTuple || len(out.Tuple) != 2 || out.Tuple[0].Int != 1 || out.Tuple[1].Int != 2 {
		t.Fatalf("tuple (1, 2) came out as %v", out)
	}
}

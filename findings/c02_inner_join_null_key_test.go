package nodes

// Demonstration for the defect repaired by "fix: the stream join never matches a NULL key": the join keys come from
// equality conditions, the key index matches keys that Compare equal, and NULL compares equal to NULL there — so
// `l JOIN r ON l.a = r.b` returned the pair (NULL-keyed left row, NULL-keyed right row). On the CLI:
//   printf 'a,x\n1,l1\n,l2\n' > l.csv; printf 'b,y\n1,r1\n,r2\n' > r.csv
//   octosql "SELECT l.a, l.x, r.b, r.y FROM l.csv l JOIN r.csv r ON l.a = r.b" -o csv      -> also ",l2,,r2"
//   (with --optimize=false the equality stays a filter and the row is correctly absent)
// The OUTER joins (outer_join.go) still match NULL keys: recorded as a known finding.
// Run: cd /repo && go test -vet=off -overlay <(echo '{"Replace":{"/repo/execution/nodes/zz_c02_demo_test.go":"/verif/findings/c02_inner_join_null_key_test.go"}}') ./execution/nodes -run TestC02InnerJoinNullKey

import (
	"context"
	"testing"
	"time"

	. "github.com/cube2222/octosql/execution"
	"github.com/cube2222/octosql/octosql"
)

func TestC02InnerJoinNullKey(t *testing.T) {
	left := NewInMemoryRecords([]Record{
		NewRecord([]octosql.Value{octosql.NewInt(1), octosql.NewString("l1")}, false, time.Time{}),
		NewRecord([]octosql.Value{octosql.NewNull(), octosql.NewString("l2")}, false, time.Time{}),
	})
	right := NewInMemoryRecords([]Record{
		NewRecord([]octosql.Value{octosql.NewInt(1), octosql.NewString("r1")}, false, time.Time{}),
		NewRecord([]octosql.Value{octosql.NewNull(), octosql.NewString("r2")}, false, time.Time{}),
	})
	join := NewStreamJoin(left, right, []Expression{NewVariable(0, 0)}, []Expression{NewVariable(0, 0)})
	var out []Record
	err := join.Run(ExecutionContext{Context: context.Background(), VariableContext: nil},
		func(ctx ProduceContext, record Record) error { out = append(out, record); return nil },
		func(ctx ProduceContext, msg MetadataMessage) error { return nil })
	if err != nil {
		t.Fatal(err)
	}
	if len(out) != 1 {
		t.Fatalf("l.a = r.b matches only the key 1, got %d rows: %v", len(out), out)
	}
}

package physical

// Demonstration for the defect repaired by "fix: object field access on a column that is an object or something else
// reads the named field": for a JSON column that holds an object in some rows and a string in others, `a->y` is
// typechecked through an assertion to the type `{x, y} | NULL` (object first), and Materialize took the field list from
// the union's second alternative (NULL: no fields), so every field access read field 0 — `a->y` returned x's value,
// a value that does not have the expression's static type.
// Run: cd /repo && go test -vet=off -overlay <(echo '{"Replace":{"/repo/physical/zz_c08_demo_test.go":"/verif/findings/c08_object_field_union_test.go"}}') ./physical -run TestC08ObjectFieldOfUnion

import (
	"context"
	"testing"

	"github.com/cube2222/octosql/execution"
	"github.com/cube2222/octosql/octosql"
)

func TestC08ObjectFieldOfUnion(t *testing.T) {
	obj := octosql.Type{TypeID: octosql.TypeIDStruct}
	obj.Struct.Fields = []octosql.StructField{{Name: "x", Type: octosql.Int}, {Name: "y", Type: octosql.String}}
	asserted := octosql.Type{TypeID: octosql.TypeIDUnion}
	asserted.Union.Alternatives = []octosql.Type{obj, octosql.Null} // as logical.TypecheckPossiblyNullableStruct builds it
	expr := Expression{
		Type:           octosql.TypeSum(octosql.String, octosql.Null),
		ExpressionType: ExpressionTypeObjectFieldAccess,
		ObjectFieldAccess: &ObjectFieldAccess{
			Object: Expression{
				Type:           asserted,
				ExpressionType: ExpressionTypeConstant,
				Constant:       &Constant{Value: octosql.NewStruct([]octosql.Value{octosql.NewInt(1), octosql.NewString("why")})},
			},
			Field: "y",
		},
	}
	m, err := expr.Materialize(context.Background(), Environment{})
	if err != nil {
		t.Fatal(err)
	}
	v, err := m.Evaluate(execution.ExecutionContext{Context: context.Background()})
	if err != nil {
		t.Fatal(err)
	}
	if v.TypeID != octosql.TypeIDString || v.Str != "why" {
		t.Fatalf("a->y evaluated to %s, want 'why'", v.String())
	}
}

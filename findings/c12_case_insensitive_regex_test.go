package functions

// Demonstration for the defect repaired by "fix: ~* matches case-insensitively without rewriting the pattern":
// the operator lower-cased both the subject and the *pattern*, which changes the meaning of escapes and classes:
// `'S' ~* '\S'` (non-space) became `'s' ~ '\s'` (space) = false; `\W`, `\D`, `\B`, `[[:^alpha:]]`-style negations likewise.
// Run: cd /repo && go test -vet=off -overlay <(echo '{"Replace":{"/repo/functions/zz_c12_demo_test.go":"/verif/findings/c12_case_insensitive_regex_test.go"}}') ./functions -run TestC12CaseInsensitiveRegex

import (
	"testing"

	"github.com/cube2222/octosql/octosql"
)

func TestC12CaseInsensitiveRegex(t *testing.T) {
	f := FunctionMap()["~*"].Descriptors[0].Function
	for _, c := range []struct {
		s, p string
		want bool
	}{
		{"S", `\S`, true},      // a non-space character
		{"x1", `^\D\d$`, true}, // non-digit then digit
		{"Hello", `^hELLO$`, true},
		{"hello", `^H`, true},
		{"a b", `^\S+$`, false},
	} {
		got, err := f([]octosql.Value{octosql.NewString(c.s), octosql.NewString(c.p)})
		if err != nil {
			t.Fatalf("%q ~* %q: %v", c.s, c.p, err)
		}
		if got.Boolean != c.want {
			t.Errorf("%q ~* %q = %v, want %v", c.s, c.p, got.Boolean, c.want)
		}
	}
}

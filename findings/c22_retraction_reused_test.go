package stream

// Demonstration for the defect repaired by "fix: the consistent stream wrapper uses every retraction once": the search
// for a retraction that cancels a pending record did not skip retractions that had already cancelled another record
// (or that stay pending because they lie beyond the watermark), so +a, +a, -a came out as nothing instead of one a.
// Run: cd /repo && go test -vet=off -overlay <(echo '{"Replace":{"/repo/outputs/stream/zz_c22_demo_test.go":"/verif/findings/c22_retraction_reused_test.go"}}') ./outputs/stream -run TestC22RetractionReused

import (
	"context"
	"testing"
	"time"

	. "github.com/cube2222/octosql/execution"
	"github.com/cube2222/octosql/octosql"
)

type fixedSource struct{ records []Record }

func (s fixedSource) Run(ctx ExecutionContext, produce ProduceFn, metaSend MetaSendFn) error {
	for _, r := range s.records {
		if err := produce(ProduceFromExecutionContext(ctx), r); err != nil {
			return err
		}
	}
	return nil
}

func TestC22RetractionReused(t *testing.T) {
	a := []octosql.Value{octosql.NewString("a")}
	w := &InternallyConsistentOutputStreamWrapper{Source: fixedSource{records: []Record{
		NewRecord(a, false, time.Time{}),
		NewRecord(a, false, time.Time{}),
		NewRecord(a, true, time.Time{}),
	}}}
	net := 0
	err := w.Run(ExecutionContext{Context: context.Background()},
		func(ctx ProduceContext, r Record) error {
			if r.Retraction {
				net--
			} else {
				net++
			}
			return nil
		},
		func(ctx ProduceContext, msg MetadataMessage) error { return nil })
	if err != nil {
		t.Fatal(err)
	}
	if net != 1 {
		t.Fatalf("+a +a -a consolidates to one a; the wrapper's output consolidates to %d", net)
	}
}

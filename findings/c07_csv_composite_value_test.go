package formats

// Demonstration for the defect repaired by "fix: the CSV output prints lists, objects and tuples in their text form":
// `octosql "SELECT * FROM file.json" -o csv` died with "panic: invalid value type to print in CSV: List" whenever a
// column held a list, an object or a tuple.
// Run: cd /repo && go test -vet=off -overlay <(echo '{"Replace":{"/repo/outputs/formats/zz_c07_demo_test.go":"/verif/findings/c07_csv_composite_value_test.go"}}') ./outputs/formats -run TestC07CSVCompositeValue

import (
	"bytes"
	"testing"

	"github.com/cube2222/octosql/octosql"
	"github.com/cube2222/octosql/physical"
)

func TestC07CSVCompositeValue(t *testing.T) {
	defer func() {
		if r := recover(); r != nil {
			t.Fatalf("the CSV formatter panicked: %v", r)
		}
	}()
	var buf bytes.Buffer
	f := NewCSVFormatter(&buf)
	f.SetSchema(physical.NewSchema([]physical.SchemaField{{Name: "l", Type: octosql.Type{TypeID: octosql.TypeIDList}}}, -1))
	if err := f.Write([]octosql.Value{octosql.NewList([]octosql.Value{octosql.NewInt(1), octosql.NewInt(2)})}); err != nil {
		t.Fatal(err)
	}
}

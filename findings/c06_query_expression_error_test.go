package execution

// Demonstration for the defect repaired by "fix: sub-query expressions propagate the error of their source":
// SingleColumnQueryExpression.Evaluate and MultiColumnQueryExpression.Evaluate discarded the error returned by
// source.Run, so a failing sub-query (`SELECT (SELECT panic(x) FROM t) ...`, an unreadable file, a retraction in the
// sub-query) evaluated to a (truncated) list and the query went on.
// Run: cd /repo && go test -vet=off -overlay <(echo '{"Replace":{"/repo/execution/zz_c06_demo_test.go":"/verif/findings/c06_query_expression_error_test.go"}}') ./execution -run TestC06QueryExpressionError

import (
	"context"
	"errors"
	"testing"
	"time"

	"github.com/cube2222/octosql/octosql"
)

type failingNode struct{}

func (failingNode) Run(ctx ExecutionContext, produce ProduceFn, metaSend MetaSendFn) error {
	if err := produce(ProduceFromExecutionContext(ctx), NewRecord([]octosql.Value{octosql.NewInt(1)}, false, time.Time{})); err != nil {
		return err
	}
	return errors.New("source failed after the first row")
}

func TestC06QueryExpressionError(t *testing.T) {
	ctx := ExecutionContext{Context: context.Background()}
	if v, err := NewSingleColumnQueryExpression(failingNode{}).Evaluate(ctx); err == nil {
		t.Errorf("single-column sub-query: the source failed, Evaluate returned %v and no error", v)
	}
	if v, err := NewMultiColumnQueryExpression(failingNode{}).Evaluate(ctx); err == nil {
		t.Errorf("multi-column sub-query: the source failed, Evaluate returned %v and no error", v)
	}
}

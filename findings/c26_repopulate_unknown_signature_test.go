package plugins

// Demonstration for the defect repaired by "fix: a pushed-down predicate whose function signature is unknown is rejected":
// RepopulatePhysicalExpressionFunctions assigned `ok = false` (the map-lookup variable of the closure) instead of
// `outOk = false` when no overload of a known function name matched the received signature, so the predicate was
// accepted with a nil Function / TypeFn (and would later be evaluated through a nil function value).
// Run: cd /repo && go test -vet=off -overlay <(echo '{"Replace":{"/repo/plugins/internal/plugins/zz_c26_demo_test.go":"/verif/findings/c26_repopulate_unknown_signature_test.go"}}') ./plugins/internal/plugins -run TestC26RepopulateUnknownSignature

import (
	"testing"

	"github.com/cube2222/octosql/octosql"
	"github.com/cube2222/octosql/physical"
)

func TestC26RepopulateUnknownSignature(t *testing.T) {
	// "upper" exists, but not with two Int arguments returning Time
	expr := physical.Expression{
		Type:           octosql.Time,
		ExpressionType: physical.ExpressionTypeFunctionCall,
		FunctionCall: &physical.FunctionCall{
			Name: "upper",
			Arguments: []physical.Expression{
				{Type: octosql.Int, ExpressionType: physical.ExpressionTypeConstant, Constant: &physical.Constant{Value: octosql.NewInt(1)}},
				{Type: octosql.Int, ExpressionType: physical.ExpressionTypeConstant, Constant: &physical.Constant{Value: octosql.NewInt(2)}},
			},
			FunctionDescriptor: physical.FunctionDescriptor{
				ArgumentTypes: []octosql.Type{octosql.Int, octosql.Int},
				OutputType:    octosql.Time,
				Strict:        true,
			},
		},
	}
	out, ok := RepopulatePhysicalExpressionFunctions(expr)
	if ok {
		t.Fatalf("no overload of upper(Int, Int) Time exists, yet the predicate was accepted (Function == nil: %v)", out.FunctionCall.FunctionDescriptor.Function == nil)
	}
}

package stream

// Demonstration for the defect repaired by "fix: the stream_native output reports a failing write":
// `octosql "SELECT ..." -o stream_native > /dev/full` exited 0 with incomplete output, because NativeFormat.WriteRecord
// and WriteMeta discarded the error of writing to stdout.
// Run: cd /repo && go test -vet=off -overlay <(echo '{"Replace":{"/repo/outputs/stream/zz_c06_demo_test.go":"/verif/findings/c06_native_write_error_test.go"}}') ./outputs/stream -run TestC06NativeWriteError

import (
	"os"
	"testing"
	"time"

	"github.com/cube2222/octosql/execution"
	"github.com/cube2222/octosql/octosql"
	"github.com/cube2222/octosql/physical"
)

func TestC06NativeWriteError(t *testing.T) {
	full, err := os.OpenFile("/dev/full", os.O_WRONLY, 0)
	if err != nil {
		t.Skip("no /dev/full")
	}
	saved := os.Stdout
	os.Stdout = full
	defer func() { os.Stdout = saved }()
	f := NewNativeFormat(physical.NewSchema([]physical.SchemaField{{Name: "x", Type: octosql.Int}}, -1))
	if err := f.WriteRecord(execution.NewRecord([]octosql.Value{octosql.NewInt(1)}, false, time.Time{})); err == nil {
		t.Error("stdout is full, WriteRecord returned nil")
	}
	if err := f.WriteMeta(execution.MetadataMessage{Type: execution.MetadataMessageTypeWatermark, Watermark: time.Unix(1, 0)}); err == nil {
		t.Error("stdout is full, WriteMeta returned nil")
	}
}

package formats

// Demonstration for the defect repaired by "fix: the JSON output returns a failing write to the query":
// JSONFormatter.Write discarded the error of the underlying writer, so the query kept running after stdout had failed
// (end to end a finite query still failed at the final flush of the buffered stdout; an unbounded one never did).
// Run: cd /repo && go test -vet=off -overlay <(echo '{"Replace":{"/repo/outputs/formats/zz_c06_demo_test.go":"/verif/findings/c06_json_write_error_test.go"}}') ./outputs/formats -run TestC06JSONWriteError

import (
	"errors"
	"testing"

	"github.com/cube2222/octosql/octosql"
	"github.com/cube2222/octosql/physical"
)

type failingWriter struct{}

func (failingWriter) Write(p []byte) (int, error) { return 0, errors.New("disk full") }

func TestC06JSONWriteError(t *testing.T) {
	f := NewJSONFormatter(failingWriter{})
	f.SetSchema(physical.NewSchema([]physical.SchemaField{{Name: "x", Type: octosql.Int}}, -1))
	if err := f.Write([]octosql.Value{octosql.NewInt(1)}); err == nil {
		t.Fatal("the writer failed, Write returned nil")
	}
}

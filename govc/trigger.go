package main

import (
	"fmt"
	"os"
	"strings"
	"time"

	"golang.org/x/tools/go/packages"
	"golang.org/x/tools/go/ssa"
	"golang.org/x/tools/go/ssa/ssautil"
)

const triggerContracts = `
//@ spec item(c *CountingTrigger, k int) *countingTriggerItem = tget(c.counts, k, countingTriggerItem)
//@ spec ri(c *CountingTrigger) bool = c.triggerAfter >= 1 && addr(c.counts) > 0 && forallK(k, thas(c.counts, k) ==> ttag(c.counts, k) == typeidptr(countingTriggerItem) && 0 < addr(item(c, k)) && addr(item(c, k)) < frontier() && item(c, k).Count >= 1 && item(c, k).Count < c.triggerAfter && cls(item(c, k).GroupKey) == k) && forallK(k1, forallK(k2, thas(c.counts, k1) && thas(c.counts, k2) && k1 != k2 ==> addr(item(c, k1)) != addr(item(c, k2))))

//@ func (*CountingTrigger).KeyReceived
//@   requires ri(c)
//@   ensures c.triggerAfter >= 1 && addr(c.counts) > 0
//@   ensures forallK(k, thas(c.counts, k) ==> ttag(c.counts, k) == typeidptr(countingTriggerItem))
//@   ensures forallK(k, thas(c.counts, k) ==> 0 < addr(item(c, k)) && addr(item(c, k)) < frontier())
//@   ensures forallK(k, thas(c.counts, k) ==> item(c, k).Count >= 1 && item(c, k).Count < c.triggerAfter)
//@   ensures forallK(k, thas(c.counts, k) ==> cls(item(c, k).GroupKey) == k)
//@   ensures forallK(k1, forallK(k2, thas(c.counts, k1) && thas(c.counts, k2) && k1 != k2 ==> addr(item(c, k1)) != addr(item(c, k2))))
//@   ensures forallK(k, k != cls(key) ==> thas(c.counts, k) == old(thas(c.counts, k)) && (thas(c.counts, k) ==> item(c, k).Count == old(item(c, k).Count)))
//@   ensures !old(thas(c.counts, cls(key))) && c.triggerAfter > 1 ==> thas(c.counts, cls(key)) && item(c, cls(key)).Count == 1 && len(c.toTrigger) == old(len(c.toTrigger))
//@   ensures old(thas(c.counts, cls(key))) && old(item(c, cls(key)).Count) + 1 < c.triggerAfter ==> thas(c.counts, cls(key)) && item(c, cls(key)).Count == old(item(c, cls(key)).Count) + 1 && len(c.toTrigger) == old(len(c.toTrigger))
//@   ensures (old(thas(c.counts, cls(key))) && old(item(c, cls(key)).Count) + 1 == c.triggerAfter) || (!old(thas(c.counts, cls(key))) && c.triggerAfter == 1) ==> !thas(c.counts, cls(key)) && len(c.toTrigger) == old(len(c.toTrigger)) + 1 && cls(c.toTrigger[len(c.toTrigger)-1]) == cls(key)
//@   ensures forall(j, 0, old(len(c.toTrigger)), cls(c.toTrigger[j]) == old(cls(c.toTrigger[j])))
`

func triggerMain() {
	t0 := time.Now()
	cfg := &packages.Config{Mode: packages.LoadAllSyntax, Dir: "/repo", BuildFlags: []string{"-tags=verif"}}
	if m := os.Getenv("MUTANT"); m != "" {
		kv := strings.SplitN(m, "=", 2)
		data, _ := os.ReadFile(kv[1])
		cfg.Overlay = map[string][]byte{kv[0]: data}
	}
	pkgs, err := packages.Load(cfg, "github.com/cube2222/octosql/execution")
	if err != nil {
		panic(err)
	}
	prog, spkgs := ssautil.AllPackages(pkgs, ssa.NaiveForm|ssa.GlobalDebug|ssa.InstantiateGenerics)
	prog.Build()
	pkg := spkgs[0]
	cs := parseContracts(triggerContracts)
	namedTypes["*countingTriggerItem"] = types_NewPointer(pkg.Type("countingTriggerItem").Type())
	fmt.Printf("loaded in %.1fs\n", time.Since(t0).Seconds())
	T := pkg.Type("CountingTrigger").Type()
	fn := prog.LookupMethod(types_NewPointer(T), pkg.Pkg, "KeyReceived")
	e := newExec("execution.(*CountingTrigger).KeyReceived", prog.Fset)
	e.cs = cs
	e.pkg = pkg.Pkg
	c := cs.Funcs["(*CountingTrigger).KeyReceived"]
	e.contracts = map[*ssa.Function]*FuncContract{fn: c}
	st := newState()
	var args []SV
	for _, p := range fn.Params {
		args = append(args, e.freshSV(p.Type(), p.Name(), tTrue, true))
	}
	recv := args[0].(*PtrV)
	e.assume(and(lt(intLit(0), recv.Addr), lt(recv.Addr, e.frontier(st))))
	// toTrigger slice sane
	tt := e.loadObj(st, recv.Addr, T).(*StructV).Fields[3].(*SliceV)
	e.assume(and(le(intLit(0), tt.Len), le(tt.Len, tt.Cap), lt(tt.Len, bigLit("MAX64")), lt(tt.Base, e.frontier(st))))
	fr0 := &Frame{fn: fn, regs: map[ssa.Value]SV{fn.Params[0]: args[0], fn.Params[1]: args[1]}}
	env := &SpecEnv{e: e, fr: fr0, st: st, bound: map[string]SV{}, cs: cs, pkg: pkg.Pkg}
	for _, r := range c.Requires {
		e.assume(scal(env.eval(r)))
	}
	e.entry = st.clone()
	func() {
		defer func() {
			if r := recover(); r != nil {
				fmt.Println("  ENGINE PANIC:", r)
			}
		}()
		e.run(fn, st, args, nil, 0)
	}()
	counts := map[string]int{}
	for _, o := range e.obls {
		sc := script(e.assumes[:o.NAssum], o.Cond, nil)
		v, _, _, secs := solve(sc, 20)
		if v != "unsat" && v != "sat" {
			var qf []*Term
			for _, a := range e.assumes[:o.NAssum] {
				if !hasBound(a) {
					qf = append(qf, a)
				}
			}
			if v2, _, _, s2 := solve(script(qf, o.Cond, nil), 20); v2 == "sat" {
				v = "sat*"
				secs += s2
			}
		}
		counts[v]++
		mark := ""
		if v != "unsat" {
			mark = "   <<<<"
			if os.Getenv("DUMP") != "" {
				os.WriteFile("/dev/shm/"+sanitize(o.Name)+".smt2", []byte(sc), 0644)
			}
		}
		fmt.Printf("  %-8s %-60s %.2fs%s\n", v, o.Name, secs, mark)
	}
	fmt.Println(counts)
	for n := range e.notes {
		fmt.Println("  note:", n)
	}
}

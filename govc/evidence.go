package main

import (
	"encoding/json"
	"fmt"
	"os"
	"path/filepath"
	"sort"
	"strings"
)

var trustedBase = []string{
	"go/packages + go/types + go/ssa builder (golang.org/x/tools v0.29.0, naive form)",
	"govc's SSA semantics and SMT encoders (/verif/govc): ints as SMT Int with explicit two's-complement wrapping, float64 as FloatingPoint, strings as SMT String, time.Time as (ns, aux), struct-of-arrays typed heap",
	"SMT solvers: z3 5.1.0 (z3-new), z3 4.8.12, cvc5 1.0.3 — unsat accepted from any one of them",
}

func writeEvidence(w *World, prop, tier string, seed int, ps *PropSpec, gens []*GenUnit, items []*Item, explicit, trivial, canaries int, vacuous []string, wall, tLoad, tGen float64, violations int, kf *Findings) error {
	perSolver := map[string]int{}
	solverSecs := map[string]float64{}
	discharged := 0
	exclDischarged := 0
	var samples []map[string]interface{}
	var failing []map[string]interface{}
	var known []string
	seenKnown := map[string]bool{}
	for _, it := range items {
		if it.Res.Solver != "" {
			perSolver[it.Res.Solver]++
			solverSecs[it.Res.Solver] += it.Res.Secs
		}
		switch it.Status {
		case "discharged":
			discharged++
		case "known-finding":
			discharged++
			exclDischarged++
			k := it.Finding.What + " [" + it.O.Name + "]"
			if !seenKnown[k] {
				seenKnown[k] = true
				known = append(known, k)
			}
		default:
			failing = append(failing, map[string]interface{}{"obligation": it.O.Name, "verdict": it.Res.Verdict, "solver": it.Res.Solver, "replay": it.Replay, "replay_verdict": it.ReplayV, "engine_error": it.EngineErr})
		}
	}
	step := len(items)/6 + 1
	for i := 0; i < len(items); i += step {
		it := items[i]
		samples = append(samples, map[string]interface{}{"obligation": it.O.Name, "status": it.Status, "verdict": it.Res.Verdict, "solver": it.Res.Solver, "secs": round2(it.Res.Secs), "smt_bytes": len(it.Script)})
	}
	if len(samples) == 0 {
		samples = append(samples, map[string]interface{}{"note": "no obligations"})
	}
	var funcs []string
	notes := map[string]bool{}
	assumed := map[string]bool{}
	for _, g := range gens {
		funcs = append(funcs, g.Name)
		if g.E != nil {
			for n := range g.E.notes {
				notes[n] = true
			}
			for _, a := range g.E.assumed {
				assumed[g.Name+": "+a] = true
			}
		}
	}
	sort.Strings(funcs)
	var assumptions []string
	for a := range assumed {
		assumptions = append(assumptions, a)
	}
	sort.Strings(assumptions)
	var dropped []string
	for n := range notes {
		dropped = append(dropped, n)
	}
	sort.Strings(dropped)
	assumptions = append(assumptions,
		"methods are invoked on non-nil receivers; input slice headers are well formed; every address inside an input was allocated before the call",
		"every integer loaded from the heap lies in the range of its Go type (heap type-safety)",
		"64-bit int; ghost traces shorter than 2^63 events",
		"extern contracts of dependencies (strings, strconv, math, time, fmt.Errorf, fnv1a, google/btree, zyedidia hashmap) as modelled in /verif/govc/call.go, container.go, btree.go; refutations are trusted only after replay on the real code",
		"interface calls Expression.Evaluate are deterministic uninterpreted functions of (receiver, context); Node.Run follows the sequential produce/metaSend protocol (DESIGN §3.6)",
	)
	for _, f := range w.CFiles {
		assumptions = append(assumptions, "contracts read from "+f)
	}
	for _, d := range dropped {
		assumptions = append(assumptions, "abstracted (sound havoc unless stated): "+d)
	}
	tb := append([]string{}, trustedBase...)
	cov := map[string]interface{}{
		"obligations":  len(items) + trivial,
		"discharged":   discharged + trivial,
		"checker_cmd":  fmt.Sprintf("/verif/bin/govc check -prop %s -tier %s", prop, tier),
		"trusted_base": tb,
		"samples":      samples,
		"explicit_obligations":               explicit,
		"explicit_trivially_true_at_generation": trivial,
		"explicit_pinned_minimum":            ps.MinExplicit,
		"discharged_only_under_known_finding_exclusion": exclDischarged,
		"per_backend":        withTrivial(perSolver, trivial),
		"solver_seconds":     roundMap(solverSecs),
		"functions_under_contract": funcs,
		"known_findings":     known,
		"undischarged":       failing,
		"vacuity":            map[string]interface{}{"reachability_canaries": canaries, "vacuous_units": vacuous},
		"load_seconds":       round2(tLoad),
		"generation_seconds": round2(tGen),
		"integers":           "mathematical Int with explicit wrap64/tdiv (exact Go semantics), not bit-vectors",
		"bounded":            []string{},
	}
	ev := map[string]interface{}{
		"property_id": prop,
		"tier":        tier,
		"seed":        seed,
		"level":       "proof",
		"coverage":    cov,
		"assumptions": assumptions,
		"wall_s":      round2(wall),
		"violations":  violations,
	}
	data, err := json.MarshalIndent(ev, "", " ")
	if err != nil {
		return err
	}
	dir := filepath.Join(verifDir(), "evidence")
	os.MkdirAll(dir, 0755)
	tmp := filepath.Join(dir, "."+prop+".json.tmp")
	if err := os.WriteFile(tmp, data, 0644); err != nil {
		return err
	}
	return os.Rename(tmp, filepath.Join(dir, prop+".json"))
}

func round2(f float64) float64 { return float64(int(f*100+0.5)) / 100 }

func roundMap(m map[string]float64) map[string]float64 {
	o := map[string]float64{}
	for k, v := range m {
		o[k] = round2(v)
	}
	return o
}

// writeReplay writes the replay file of a failed obligation: the obligation, the solver's verdict and model, and —
// where a Go replay harness exists for the unit kind — the test that reproduces it on the real code and its result.
func (it *Item) writeReplay(w *World, prop string) {
	dir := filepath.Join(verifDir(), "replays")
	name := sanitize(prop + "_" + it.O.Name)
	if len(name) > 180 {
		name = name[:180]
	}
	it.Replay = filepath.Join(dir, name+".txt")
	var sb strings.Builder
	fmt.Fprintf(&sb, "property: %s\nobligation: %s\n", prop, it.O.Name)
	if it.EngineErr != "" {
		fmt.Fprintf(&sb, "status: the function left the verifiable subset; its obligations are no longer discharged\nengine: %s\n", it.EngineErr)
		os.WriteFile(it.Replay, []byte(sb.String()), 0644)
		return
	}
	if it.O.Pos.IsValid() {
		fmt.Fprintf(&sb, "position: %s\n", w.Prog.Fset.Position(it.O.Pos))
	}
	fmt.Fprintf(&sb, "verdict: %s (solver %s, %.2fs); tried: %v\n", it.Res.Verdict, it.Res.Solver, it.Res.Secs, it.Res.Tried)
	if it.ExclRes != nil {
		fmt.Fprintf(&sb, "with the known-finding class excluded: %s\n", it.ExclRes.Verdict)
	}
	var src string
	if it.Res.Verdict == "sat" {
		vals := parseModel(it.Res.Output)
		if it.G.Desc != nil {
			it.ReplayV, src = replayDescriptor(it.G.Desc, it.O.Kind, it.G.NArgs, vals, it.G.Desc.OutIDs)
		}
		fmt.Fprintf(&sb, "replay: %s\n", it.ReplayV)
	} else if it.Res.Verdict != "sat" {
		// undecided under quantified assumptions: ask again without them for a candidate model
		var qf []*Term
		for _, a := range it.G.E.assumes[:it.O.NAssum] {
			if !hasBound(a) {
				qf = append(qf, a)
			}
		}
		if !hasBound(it.O.Cond) {
			r := solvePortfolio(script(qf, it.O.Cond, it.G.E.inputTerms()), 5, 0)
			fmt.Fprintf(&sb, "candidate query without quantified assumptions: %s\n", r.Verdict)
			if r.Verdict == "sat" {
				it.Res.Output = r.Output
			}
		}
	}
	fmt.Fprintf(&sb, "\n--- solver output ---\n%s\n", it.Res.Output)
	if src != "" {
		fmt.Fprintf(&sb, "\n--- go replay test (run with: go test -overlay, package dir of the function) ---\n%s\n", src)
	}
	os.WriteFile(it.Replay, []byte(sb.String()), 0644)
}

func parseModel(out string) map[string]*sx {
	vals := map[string]*sx{}
	idx := strings.Index(out, "\n")
	if idx < 0 {
		return vals
	}
	sxs := parseSx(out[idx+1:])
	if len(sxs) > 0 {
		for _, pair := range sxs[0].list {
			if len(pair.list) == 2 {
				vals[pair.list[0].atom] = pair.list[1]
			}
		}
	}
	return vals
}

func withTrivial(m map[string]int, trivial int) map[string]int {
	if trivial > 0 {
		m["govc term simplifier (goal reduced to true at generation)"] = trivial
	}
	return m
}

package main

import (
	"fmt"
	"os"
	"runtime/debug"
	"go/ast"
	"go/parser"
	"go/types"
	"path"
	"sort"
	"strings"

	"golang.org/x/tools/go/ssa"
)

// UnitSpec is one entry of /verif/specs/props.json: a function (or family) verified for a property.
type UnitSpec struct {
	Kind  string   `json:"kind"`            // func | descriptors | lemma
	Pkg   string   `json:"pkg"`             // package (path suffix below the module)
	Sel   string   `json:"sel,omitempty"`   // func: contract selector; lemma: lemma name
	Names []string `json:"names,omitempty"` // descriptors: function names ("" = all)
	Claim []string `json:"claim"`           // globs over the obligation's local name (after the '/')
}

type PropSpec struct {
	Packages []string   `json:"packages"`
	Units    []UnitSpec `json:"units"`
	MinExplicit int     `json:"min_explicit"` // pinned lower bound of explicit obligations (vacuity guard)
}

// GenUnit is the result of VC generation for one function.
type GenUnit struct {
	Name   string // base name of its obligations
	Spec   *UnitSpec
	E      *Exec
	Fn     *ssa.Function
	Err    string // engine failure: the function left the verifiable subset
	Desc   *Descriptor
	NArgs  int
	Canary *Term // disjunction of the reach conditions of all returns (must be satisfiable)
	WatchAssumes []*Term // definitions of named model constants (replay)
	WatchNames   []*Term
	ClassBound   map[string]SV // names a finding-class expression may use besides the function's parameters (lemma parameters)
}

func claimed(spec *UnitSpec, local string) bool {
	for _, g := range spec.Claim {
		if ok, _ := path.Match(g, local); ok {
			return true
		}
		if globMatch(g, local) {
			return true
		}
		// path.Match stops '*' at '/', local names have none; allow prefix globs with brackets by plain compare
		if strings.HasSuffix(g, "*") && strings.HasPrefix(local, strings.TrimSuffix(g, "*")) {
			return true
		}
	}
	return false
}

func localName(full string) string {
	if i := strings.LastIndex(full, "/"); i >= 0 {
		return full[i+1:]
	}
	return full
}

// saneInput states the Go-level type invariants of an input value: slice headers are well formed and every
// address in it was allocated before the call (below the allocation frontier).
func (e *Exec) saneInput(st *BState, t types.Type, sv SV, guard *Term) {
	var ls []*Term
	leaves(sv, &ls)
	f := e.frontier(st)
	i := 0
	var curSlice [4]*Term
	build(t, "", func(p, sort string, _ types.Type) *Term {
		l := ls[i]
		i++
		switch {
		case strings.HasSuffix(p, ".base"):
			curSlice[0] = l
			e.assume(implies(guard, and(le(intLit(0), l), lt(l, f))))
		case strings.HasSuffix(p, ".off"):
			curSlice[1] = l
		case strings.HasSuffix(p, ".len"):
			curSlice[2] = l
		case strings.HasSuffix(p, ".cap"):
			e.assume(implies(guard, and(le(intLit(0), curSlice[1]), le(intLit(0), curSlice[2]), le(curSlice[2], l), le(add(curSlice[1], l), bigLit("MAX64")),
				implies(eq(curSlice[0], intLit(0)), eq(l, intLit(0))))))
		case strings.HasSuffix(p, ".addr"):
			e.assume(implies(guard, and(le(intLit(0), l), lt(l, f))))
		case strings.HasSuffix(p, ".ref"):
			e.assume(implies(guard, lt(l, f)))
		}
		return l
	})
}

func (e *Exec) initGhosts(w *World, st *BState) {
	ex := w.Prog.ImportedPackage(modPath + "/execution")
	if ex == nil {
		return
	}
	recT := ex.Type("Record").Type()
	msgT := ex.Type("MetadataMessage").Type()
	e.ghostTrace(st, "IN", recT)
	e.ghostTrace(st, "OUT", recT)
	e.ghostTrace(st, "INM", msgT)
	e.ghostTrace(st, "OUTM", msgT)
	zero := mk(sortArrII, "((as const "+sortArrII+") 0)")
	st.heap[netKey("IN")] = zero
	st.heap[netKey("OUT")] = zero
	st.ghost["ended"] = boolSV(tFalse)
	ghostTypes["ended"] = types.Typ[types.Bool]
	errT := types.Universe.Lookup("error").Type()
	st.ghost["cbErr"] = zeroValue(errT)
	ghostTypes["cbErr"] = errT
	st.ghost["$produceFailed"] = boolSV(tFalse)
	ghostTypes["$produceFailed"] = types.Typ[types.Bool]
	st.ghost["$outAtMeta"] = intSV(intLit(0))
	ghostTypes["$outAtMeta"] = types.Typ[types.Int]
	st.ghost["runErr"] = zeroValue(errT)
	ghostTypes["runErr"] = errT
}

func usesStreams(fn *ssa.Function) bool {
	for _, p := range fn.Params {
		if namedIs(p.Type(), "octosql/execution", "ProduceFn") || namedIs(p.Type(), "octosql/execution", "MetaSendFn") {
			return true
		}
		if sig, ok := p.Type().Underlying().(*types.Signature); ok && sig.Params().Len() == 1 && namedIs(sig.Params().At(0).Type(), "octosql/execution", "Record") {
			return true
		}
	}
	return false
}

// genFunc generates the verification conditions of one function against its contract.
func (w *World) genFunc(fn *ssa.Function, c *FuncContract, base string) (g *GenUnit) {
	g = &GenUnit{Name: base, Fn: fn}
	e := newExec(base, w.Prog.Fset)
	g.E = e
	e.cs = w.CS
	e.w = w
	if fn.Pkg != nil {
		e.pkg = fn.Pkg.Pkg
	} else if c != nil {
		e.pkg = c.Pkg
	}
	e.contracts = map[*ssa.Function]*FuncContract{}
	if c != nil {
		e.contracts[fn] = c
	}
	defer func() {
		if r := recover(); r != nil {
			g.Err = fmt.Sprint(r)
			if os.Getenv("GOVC_DEBUG") != "" {
				fmt.Fprintf(os.Stderr, "%s\n", debug.Stack())
			}
		}
	}()
	resetRunGlobals()
	registerInteriorOrigins(fn, map[*ssa.Function]bool{})
	st := newState()
	var args []SV
	fr0 := &Frame{fn: fn, regs: map[ssa.Value]SV{}}
	for i, p := range fn.Params {
		sv := e.freshSV(p.Type(), p.Name(), tTrue, true)
		e.saneInput(st, p.Type(), sv, tTrue)
		if i == 0 && fn.Signature.Recv() != nil {
			if pv, ok := sv.(*PtrV); ok {
				e.assume(lt(intLit(0), pv.Addr)) // methods are invoked on non-nil receivers
			}
		}
		args = append(args, sv)
		fr0.regs[p] = sv
		e.inputSVs = append(e.inputSVs, NamedInput{p.Name(), p.Type(), sv})
	}
	var binds []SV
	for _, fv := range fn.FreeVars {
		// a captured variable that holds a function literal assigned once in the enclosing function (a local helper
		// such as needsEscaping): the literal itself, so that calls of it are resolved (by contract or inlined)
		if a := resolveCapture(fv); a != nil && cellLike(a) {
			var only ssa.Value
			n := 0
			for _, ref := range *a.Referrers() {
				if s, ok := ref.(*ssa.Store); ok && s.Addr == ssa.Value(a) {
					n++
					only = s.Val
				}
			}
			if n == 1 {
				var target *ssa.Function
				var mcl *ssa.MakeClosure
				switch v := only.(type) {
				case *ssa.MakeClosure:
					if len(v.Bindings) == 0 {
						target, mcl = v.Fn.(*ssa.Function), v
					}
				case *ssa.Function:
					target = v
				case *ssa.ChangeType:
					if f2, ok := v.X.(*ssa.Function); ok {
						target = f2
					}
				}
				if target != nil {
					sv := &Scalar{T: e.funcID(target), Ty: a.Type().(*types.Pointer).Elem()}
					if mcl != nil {
						closures[mcl] = nil
						closureOf[sv] = mcl
					} else {
						staticFuncOf[sv] = target
					}
					st.cells[a] = sv
					pv := &PtrV{Ty: fv.Type(), LV: &LVal{Alloc: a}}
					binds = append(binds, pv)
					fr0.regs[fv] = pv
					continue
				}
			}
		}
		// standalone verification of a closure: captured variables are heap cells with unknown contents
		pv := e.freshSV(fv.Type(), fv.Name(), tTrue, true)
		e.saneInput(st, fv.Type(), pv, tTrue)
		if p, ok := pv.(*PtrV); ok {
			e.assume(lt(intLit(0), p.Addr))
		}
		binds = append(binds, pv)
		fr0.regs[fv] = pv
	}
	fr0.bind = binds
	po, pm := producesInto(fn)
	if usesStreams(fn) || po || pm || (c != nil && len(c.StreamInv) > 0) {
		e.initGhosts(w, st)
	}
	if c != nil {
		env := &SpecEnv{e: e, fr: fr0, st: st, bound: map[string]SV{}, cs: w.CS, pkg: e.pkg}
		for _, r := range c.Requires {
			e.assume(scal(env.eval(r.Expr)))
		}
		for _, r := range c.Assumes {
			e.assume(scal(env.eval(r.Expr)))
			e.assumed = append(e.assumed, "assumes "+r.Src)
		}
	}
	e.entry = st.clone()
	e.entryFrame = fr0
	e.run(fn, st, args, binds, 0)
	g.Canary = e.returnReach
	return g
}

func resetRunGlobals() {
	exitReach = map[*ssa.BasicBlock]*Term{}
	arrayAllocs = map[ssa.Value]*SliceV{}
	madeIface = map[*IfaceV]*ssa.MakeInterface{}
	closures = map[*ssa.MakeClosure][]SV{}
	closureOf = map[SV]*ssa.MakeClosure{}
	rangeOver = map[*ssa.Range]SV{}
	streamCount = map[*ssa.Function]int{}
	ascendCount = map[*ssa.Function]int{}
	interiorTypes = map[string]bool{}
	interiorOrigins = map[string]*interiorOrigin{}
	pendingInterior = nil
	inlineStack = nil
}

// ---------- descriptor closures of functions.FunctionMap ----------

func (w *World) genDescriptors(spec *UnitSpec) []*GenUnit {
	sp, pp := w.pkgByName("functions")
	if sp == nil {
		return []*GenUnit{{Name: "functions.FunctionMap", Err: "package functions not loaded"}}
	}
	descs := findDescriptors(pp)
	root := sp.Func("FunctionMap")
	want := map[string]bool{}
	for _, n := range spec.Names {
		want[n] = true
	}
	var out []*GenUnit
	for _, d := range descs {
		if len(want) > 0 && !want[d.Name] {
			continue
		}
		base := fmt.Sprintf("functions.FunctionMap[%q][%d].Function", d.Name, d.Index)
		if d.Lit == nil {
			out = append(out, &GenUnit{Name: base, Err: "descriptor has no function literal", Desc: d})
			continue
		}
		d.Fn = w.funcBySyntax(root, d.Lit)
		if d.Fn == nil {
			out = append(out, &GenUnit{Name: base, Err: "function literal does not bind to SSA", Desc: d})
			continue
		}
		if d.TypeFnLit != nil {
			d.TypeFn = w.funcBySyntax(root, d.TypeFnLit)
		}
		out = append(out, w.genDescriptor(sp, d, base))
	}
	sort.Slice(out, func(i, j int) bool { return out[i].Name < out[j].Name })
	return out
}

func (w *World) genDescriptor(sp *ssa.Package, d *Descriptor, base string) (g *GenUnit) {
	g = &GenUnit{Name: base, Fn: d.Fn, Desc: d}
	e := newExec(base, w.Prog.Fset)
	g.E = e
	e.cs = w.CS
	e.w = w
	e.pkg = sp.Pkg
	c := w.CS.forFunc(sp.Pkg, fmt.Sprintf("FunctionMap[%q][%d].Function", d.Name, d.Index))
	e.contracts = map[*ssa.Function]*FuncContract{}
	if c != nil {
		e.contracts[d.Fn] = c
	}
	defer func() {
		if r := recover(); r != nil {
			g.Err = fmt.Sprint(r)
		}
	}()
	resetRunGlobals()
	st := newState()
	valueT := d.Fn.Params[0].Type().Underlying().(*types.Slice).Elem()
	values := e.freshSV(d.Fn.Params[0].Type(), "values", tTrue, true).(*SliceV)
	e.saneInput(st, d.Fn.Params[0].Type(), values, tTrue)
	e.assume(lt(intLit(0), values.Base))
	e.inputSVs = append(e.inputSVs, NamedInput{"values", d.Fn.Params[0].Type(), values})
	// Preconditions derived from the descriptor literal itself (what the typechecker establishes before a call):
	// arity and argument TypeIDs from ArgumentTypes, or from the paths on which TypeFn accepts.
	n := len(d.ArgTypes)
	var tfTypes *SliceV
	if d.HasArgs {
		e.assume(eq(values.Len, intLit(int64(n))))
	} else if d.TypeFn != nil {
		tfTypes, n = e.typeFnFacts(st, d, values)
	} else {
		panic("descriptor with neither ArgumentTypes nor TypeFn")
	}
	g.NArgs = n
	for i := 0; i < n; i++ {
		el := e.loadElem(st, values, intLit(int64(i)), valueT).(*StructV)
		tid := scal(el.Fields[0])
		guard := lt(intLit(int64(i)), values.Len)
		e.assume(implies(guard, and(le(intLit(0), tid), le(tid, intLit(9)))))
		if d.HasArgs && d.ArgTypes[i] >= 0 {
			e.assume(eq(tid, intLit(int64(d.ArgTypes[i]))))
		} else if d.Strict {
			e.assume(implies(guard, not(eq(tid, intLit(0)))))
		}
		if tfTypes != nil {
			tt := d.TypeFn.Params[0].Type().Underlying().(*types.Slice).Elem()
			ttid := scal(e.loadElem(st, tfTypes, intLit(int64(i)), tt).(*StructV).Fields[0])
			// a value of a non-union, non-Any static type carries that TypeID (NULL excluded above when strict)
			e.assume(implies(and(guard, le(intLit(0), ttid), le(ttid, intLit(9))), eq(tid, ttid)))
		}
		e.saneInput(st, valueT, el, guard)
		var ls []*Term
		leaves(el, &ls)
		li := 0
		ai := i
		build(valueT, "", func(path, sort string, _ types.Type) *Term {
			nm := fmt.Sprintf("rv!%d!%s", ai, path)
			declareLocal(nm, sort)
			c := mk(sort, nm)
			g.WatchAssumes = append(g.WatchAssumes, eq(c, ls[li]))
			g.WatchNames = append(g.WatchNames, c)
			li++
			return nil
		})
	}
	fr0 := &Frame{fn: d.Fn, regs: map[ssa.Value]SV{d.Fn.Params[0]: values}}
	var binds []SV
	for _, fv := range d.Fn.FreeVars {
		// variables captured from the immediately-invoked outer literal: heap cells with unknown contents
		pv := e.freshSV(fv.Type(), fv.Name(), tTrue, true)
		e.saneInput(st, fv.Type(), pv, tTrue)
		if p, ok := pv.(*PtrV); ok {
			e.assume(lt(intLit(0), p.Addr))
		}
		binds = append(binds, pv)
		fr0.regs[fv] = pv
	}
	fr0.bind = binds
	if _, ok := w.CS.Specs["validV"]; ok {
		// every argument is a valid octosql.Value (the value invariant of package octosql)
		env := &SpecEnv{e: e, fr: fr0, st: st, bound: map[string]SV{}, cs: w.CS, pkg: e.pkg}
		for i := 0; i < n; i++ {
			x, _ := parser.ParseExpr(fmt.Sprintf("validV(values[%d])", i))
			guard := lt(intLit(int64(i)), values.Len)
			e.assume(implies(guard, scal(env.eval(x))))
		}
	}
	if c != nil {
		env := &SpecEnv{e: e, fr: fr0, st: st, bound: map[string]SV{}, cs: w.CS, pkg: e.pkg}
		for _, r := range c.Requires {
			e.assume(scal(env.eval(r.Expr)))
		}
		for _, r := range c.Assumes {
			e.assume(scal(env.eval(r.Expr)))
			e.assumed = append(e.assumed, "assumes "+r.Src)
		}
	}
	e.entry = st.clone()
	e.entryFrame = fr0
	vals, out := e.run(d.Fn, st, []SV{values}, binds, 0)
	g.Canary = e.returnReach
	if vals != nil && d.OutIDs != nil {
		res := vals[0].(*StructV)
		errv := vals[1].(*IfaceV)
		tid := scal(res.Fields[0])
		var alts []*Term
		anyOut := false
		for _, id := range d.OutIDs {
			if id < 0 {
				anyOut = true
			}
			alts = append(alts, eq(tid, intLit(int64(id))))
		}
		if !anyOut {
			e.obligeNamed(out, "ensures.outtype", d.Lit.Pos(), implies(eq(errv.Tag, intLit(0)), or(alts...)))
		}
	}
	return g
}

// typeFnFacts executes the descriptor's TypeFn symbolically on an arbitrary argument-type list and assumes that it
// accepted (returned true). Returns the symbolic type list and the largest arity any accepting path allows.
func (e *Exec) typeFnFacts(st *BState, d *Descriptor, values *SliceV) (*SliceV, int) {
	tf := d.TypeFn
	ts := e.freshSV(tf.Params[0].Type(), "argtypes", tTrue, false).(*SliceV)
	e.saneInput(st, tf.Params[0].Type(), ts, tTrue)
	e.assume(eq(ts.Len, values.Len))
	e.quiet++
	sub := st.clone()
	vals, out := e.run(tf, sub, []SV{ts}, nil, 1)
	e.quiet--
	if vals == nil {
		panic("TypeFn has no return")
	}
	e.assume(out.reach)
	e.assume(scal(vals[1]))
	// arity: read "len(types) != N" tests off the AST (accepting paths need len == N)
	n := 0
	ast.Inspect(d.TypeFnLit, func(nd ast.Node) bool {
		if be, ok := nd.(*ast.BinaryExpr); ok {
			if ce, ok := be.X.(*ast.CallExpr); ok {
				if id, ok := ce.Fun.(*ast.Ident); ok && id.Name == "len" {
					if bl, ok := be.Y.(*ast.BasicLit); ok {
						var k int
						fmt.Sscanf(bl.Value, "%d", &k)
						if k > n {
							n = k
						}
					}
				}
			}
		}
		return true
	})
	if n == 0 {
		n = 2
	}
	return ts, n
}


// registerInteriorOrigins scans fn and its function literals for `&x.f...` whose value is stored in memory
// (a Store's value operand): the (owner type, field path) per pointed-to type. Two different origins for one type
// switch the read-through model off for that type (reads are arbitrary again).
func registerInteriorOrigins(fn *ssa.Function, seen map[*ssa.Function]bool) {
	if fn == nil || seen[fn] {
		return
	}
	seen[fn] = true
	for _, b := range fn.Blocks {
		for _, ins := range b.Instrs {
			fa, ok := ins.(*ssa.FieldAddr)
			if !ok || fa.Referrers() == nil {
				continue
			}
			stored := false
			for _, r := range *fa.Referrers() {
				if st, ok := r.(*ssa.Store); ok && st.Val == fa {
					stored = true
				}
			}
			if !stored {
				continue
			}
			path := []int{fa.Field}
			base := fa.X
			for {
				inner, ok := base.(*ssa.FieldAddr)
				if !ok {
					break
				}
				path = append([]int{inner.Field}, path...)
				base = inner.X
			}
			pt, ok := base.Type().Underlying().(*types.Pointer)
			if !ok {
				continue
			}
			T := pt.Elem()
			F := fa.Type().Underlying().(*types.Pointer).Elem()
			pre := fieldPrefix(T, path)
			k := typeKey(F)
			if o := interiorOrigins[k]; o != nil {
				if typeKey(o.T) != typeKey(T) || o.prefix != pre {
					o.multi = true
				}
			} else {
				interiorOrigins[k] = &interiorOrigin{T: T, prefix: pre, multi: pre == "?"}
			}
		}
	}
	for _, af := range fn.AnonFuncs {
		registerInteriorOrigins(af, seen)
	}
}

package main

// Extern contracts used by the plugin-manager checks (C28): directory listing, the string helpers the name parsing
// uses, and Masterminds/semver as an abstract totally pre-ordered set of versions (rank) with uninterpreted
// constraint satisfaction. All of them are assumptions about dependencies (listed in the evidence).

import (
	"go/types"

	"golang.org/x/tools/go/ssa"
)

// pureInvokes: interface methods modelled as deterministic functions of the receiver (tag, ref).
var pureInvokes = map[string]string{
	"(io/fs.DirEntry).Name": "fs.DirEntry.Name",
}

func semverRank(p SV) *Term {
	return ufun("ext.semver.rank", []string{SInt}, SInt, p.(*PtrV).Addr)
}

func init() {
	externs["strings.TrimPrefix"] = func(e *Exec, st *BState, x *ssa.Call, args []SV) SV {
		s, p := scal(args[0]), scal(args[1])
		r := ite(app(SBool, "str.prefixof", p, s), app(SStr, "str.substr", s, e.strLen(p), sub(e.strLen(s), e.strLen(p))), s)
		return &Scalar{T: r, Ty: x.Type()}
	}
	externs["strings.TrimSuffix"] = func(e *Exec, st *BState, x *ssa.Call, args []SV) SV {
		s, p := scal(args[0]), scal(args[1])
		r := ite(app(SBool, "str.suffixof", p, s), app(SStr, "str.substr", s, intLit(0), sub(e.strLen(s), e.strLen(p))), s)
		return &Scalar{T: r, Ty: x.Type()}
	}
	// strings.LastIndex(s, sep): -1 iff sep does not occur; otherwise an occurrence with none starting later
	externs["strings.LastIndex"] = func(e *Exec, st *BState, x *ssa.Call, args []SV) SV {
		s, sep := scal(args[0]), scal(args[1])
		r := ufun("ext.strings.LastIndex", []string{SStr, SStr}, SInt, s, sep)
		ls, lp := e.strLen(s), e.strLen(sep)
		occurs := app(SBool, "str.contains", s, sep)
		tail := app(SStr, "str.substr", s, add(r, intLit(1)), sub(ls, add(r, intLit(1))))
		e.assume(ite(occurs,
			and(le(intLit(0), r), le(add(r, lp), ls), eq(app(SStr, "str.substr", s, r, lp), sep),
				or(eq(lp, intLit(0)), not(app(SBool, "str.contains", tail, sep)))),
			eq(r, intLit(-1))))
		return &Scalar{T: r, Ty: x.Type()}
	}
	externs["strings.Count"] = func(e *Exec, st *BState, x *ssa.Call, args []SV) SV {
		s, sep := scal(args[0]), scal(args[1])
		r := ufun("ext.strings.Count", []string{SStr, SStr}, SInt, s, sep)
		e.assume(and(le(intLit(0), r), le(r, add(e.strLen(s), intLit(1))), eq(eq(r, intLit(0)), not(app(SBool, "str.contains", s, sep)))))
		return &Scalar{T: r, Ty: x.Type()}
	}
	externs["os.IsNotExist"] = func(e *Exec, st *BState, x *ssa.Call, args []SV) SV {
		iv := args[0].(*IfaceV)
		r := ufun("ext.os.IsNotExist", []string{SInt, SInt}, SBool, iv.Tag, iv.Ref)
		e.assume(implies(eq(iv.Tag, intLit(0)), not(r)))
		return &Scalar{T: r, Ty: x.Type()}
	}
	cmp := func(op string) externFn {
		return func(e *Exec, st *BState, x *ssa.Call, args []SV) SV {
			a, b := semverRank(args[0]), semverRank(args[1])
			var r *Term
			switch op {
			case ">":
				r = lt(b, a)
			case "<":
				r = lt(a, b)
			case "=":
				r = eq(a, b)
			}
			return &Scalar{T: r, Ty: x.Type()}
		}
	}
	externs["(*github.com/Masterminds/semver.Version).GreaterThan"] = cmp(">")
	externs["(*github.com/Masterminds/semver.Version).LessThan"] = cmp("<")
	externs["(*github.com/Masterminds/semver.Version).Equal"] = cmp("=")
	externs["(*github.com/Masterminds/semver.Version).Compare"] = func(e *Exec, st *BState, x *ssa.Call, args []SV) SV {
		a, b := semverRank(args[0]), semverRank(args[1])
		return &Scalar{T: ite(lt(a, b), intLit(-1), ite(eq(a, b), intLit(0), intLit(1))), Ty: x.Type()}
	}
	externs["(*github.com/Masterminds/semver.Version).Prerelease"] = func(e *Exec, st *BState, x *ssa.Call, args []SV) SV {
		return &Scalar{T: ufun("ext.semver.Prerelease", []string{SInt}, SStr, args[0].(*PtrV).Addr), Ty: x.Type()}
	}
	externs["(*github.com/Masterminds/semver.Version).String"] = func(e *Exec, st *BState, x *ssa.Call, args []SV) SV {
		return &Scalar{T: ufun("ext.semver.String", []string{SInt}, SStr, args[0].(*PtrV).Addr), Ty: x.Type()}
	}
	// Constraints.Check has a value receiver: satisfaction is an uninterpreted predicate of the constraint value (all
	// its leaves) and the version object
	externs["(github.com/Masterminds/semver.Constraints).Check"] = func(e *Exec, st *BState, x *ssa.Call, args []SV) SV {
		var ls []*Term
		leaves(args[0], &ls)
		ls = append(ls, args[1].(*PtrV).Addr)
		var sorts []string
		for _, t := range ls {
			sorts = append(sorts, t.Sort)
		}
		return &Scalar{T: ufun("ext.semver.Check", sorts, SBool, ls...), Ty: x.Type()}
	}
	// semver.NewVersion: a version object that exists already (versions are immutable values; two parses of the same
	// text may or may not share an object) or an error
	externs["github.com/Masterminds/semver.NewVersion"] = func(e *Exec, st *BState, x *ssa.Call, args []SV) SV {
		tup := x.Type().(*types.Tuple)
		p := e.freshSV(tup.At(0).Type(), "semver.NewVersion", st.reach, false).(*PtrV)
		er := e.freshSV(tup.At(1).Type(), "semver.NewVersion.err", st.reach, false).(*IfaceV)
		e.assume(implies(eq(er.Tag, intLit(0)), lt(intLit(0), p.Addr)))
		return &TupleV{Elems: []SV{p, er}}
	}
}

// protobuf well-known types used by the plugin protocol (C26). A Timestamp / Duration message is an immutable box
// holding an instant / a length: timestamppb.New(t) and AsTime are exact for every time.Time (seconds + nanoseconds
// of the instant; AsTime yields the instant in UTC), durationpb.New(d) and AsDuration are exact for every
// time.Duration; a nil message reads as the Unix epoch / zero (the generated getters' nil behaviour).
func init() {
	tsns := func(p *Term) *Term { return ufun("ext.timestamppb.ns", []string{SInt}, SInt, p) }
	durns := func(p *Term) *Term { return ufun("ext.durationpb.ns", []string{SInt}, SInt, p) }
	externs["google.golang.org/protobuf/types/known/timestamppb.New"] = func(e *Exec, st *BState, x *ssa.Call, args []SV) SV {
		p := e.allocAddr(st)
		tv := args[0].(*StructV)
		e.assume(eq(tsns(p), scal(tv.Fields[0])))
		return &PtrV{Ty: x.Type(), Addr: p}
	}
	externs["(*google.golang.org/protobuf/types/known/timestamppb.Timestamp).AsTime"] = func(e *Exec, st *BState, x *ssa.Call, args []SV) SV {
		p := args[0].(*PtrV).Addr
		ns := ite(eq(p, intLit(0)), intLit(0), tsns(p))
		return &StructV{Ty: x.Type(), Fields: []SV{&Scalar{T: ns}, &Scalar{T: e.fresh("aux.utc", SInt)}}}
	}
	externs["google.golang.org/protobuf/types/known/durationpb.New"] = func(e *Exec, st *BState, x *ssa.Call, args []SV) SV {
		p := e.allocAddr(st)
		e.assume(eq(durns(p), scal(args[0])))
		return &PtrV{Ty: x.Type(), Addr: p}
	}
	externs["(*google.golang.org/protobuf/types/known/durationpb.Duration).AsDuration"] = func(e *Exec, st *BState, x *ssa.Call, args []SV) SV {
		p := args[0].(*PtrV).Addr
		d := durns(p)
		e.assume(and(le(bigLit("MIN64"), d), le(d, bigLit("MAX64"))))
		return &Scalar{T: ite(eq(p, intLit(0)), intLit(0), d), Ty: x.Type()}
	}
}

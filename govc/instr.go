package main

import (
	"fmt"
	"go/token"
	"go/types"
	"math"
	"strings"

	"golang.org/x/tools/go/ssa"
)

func f64Lit(f float64) *Term {
	bits := math.Float64bits(f)
	return mk(SF64, fmt.Sprintf("((_ to_fp 11 53) #x%016x)", bits))
}

func (e *Exec) val(fr *Frame, v ssa.Value) SV {
	switch x := v.(type) {
	case *ssa.Const:
		return e.constSV(x)
	case *ssa.Function:
		return &Scalar{T: e.funcID(x), Ty: x.Type()}
	case *ssa.Global:
		// address of a package-level variable: heap object at a fixed address
		return &PtrV{Ty: x.Type(), LV: &LVal{Heap: e.globalAddr(x), HeapT: x.Type().(*types.Pointer).Elem()}}
	}
	if sv, ok := fr.regs[v]; ok {
		return sv
	}
	panic(fmt.Sprintf("no value for %s (%T) in %s", v.Name(), v, fr.fn))
}

var funcIDs = map[*ssa.Function]int{}
var funcByID = map[int]*ssa.Function{}

func (e *Exec) funcID(f *ssa.Function) *Term {
	id, ok := funcIDs[f]
	if !ok {
		id = len(funcIDs) + 1
		funcIDs[f] = id
		funcByID[id] = f
	}
	return intLit(int64(id))
}

var globalAddrs = map[*ssa.Global]int{}

func (e *Exec) globalAddr(g *ssa.Global) *Term {
	id, ok := globalAddrs[g]
	if !ok {
		id = len(globalAddrs) + 1
		globalAddrs[g] = id
	}
	return intLit(int64(-id)) // negative addresses: globals, disjoint from allocations
}

func scal(sv SV) *Term { return sv.(*Scalar).T }

func (e *Exec) execBlock(fr *Frame, b *ssa.BasicBlock, st *BState, edgeCond map[[2]int]*Term) {
	for _, ins := range b.Instrs {
		e.execInstr(fr, b, ins, st, edgeCond)
	}
}

func basicOf(t types.Type) *types.Basic {
	b, _ := t.Underlying().(*types.Basic)
	return b
}

func wrapFor(t types.Type, x *Term) *Term {
	b := basicOf(t)
	if b == nil {
		return x
	}
	switch b.Kind() {
	case types.Int, types.Int64:
		return app(SInt, "wrap64", x)
	case types.Int32:
		return app(SInt, "wrap32", x)
	case types.Uint64, types.Uint, types.Uintptr:
		return app(SInt, "mod", x, bigLit("18446744073709551616"))
	case types.Uint32:
		return app(SInt, "mod", x, bigLit("4294967296"))
	case types.Uint8:
		return app(SInt, "mod", x, intLit(256))
	case types.Uint16:
		return app(SInt, "mod", x, intLit(65536))
	case types.Int8:
		return sub(app(SInt, "mod", add(x, intLit(128)), intLit(256)), intLit(128))
	case types.Int16:
		return sub(app(SInt, "mod", add(x, intLit(32768)), intLit(65536)), intLit(32768))
	}
	return x
}

func (e *Exec) binop(st *BState, op token.Token, x, y SV, t types.Type, rt types.Type, pos token.Pos) SV {
	// interface / pointer comparisons
	switch xv := x.(type) {
	case *IfaceV:
		yv := y.(*IfaceV)
		// nil interface iff tag == 0 (the payload of a nil interface is irrelevant)
		c := and(eq(xv.Tag, yv.Tag), or(eq(xv.Tag, intLit(0)), eq(xv.Ref, yv.Ref)))
		if op == token.NEQ {
			c = not(c)
		}
		return &Scalar{T: c, Ty: rt}
	case *PtrV:
		yv := y.(*PtrV)
		var c *Term
		switch {
		case xv.LV != nil && isNilPtrConst(yv):
			c = xv.nilCond()
		case yv.LV != nil && isNilPtrConst(xv):
			c = yv.nilCond()
		case xv.Addr == nil || yv.Addr == nil:
			panic("comparison of static pointers")
		default:
			c = eq(xv.Addr, yv.Addr)
		}
		if op == token.NEQ {
			c = not(c)
		}
		return &Scalar{T: c, Ty: rt}
	case *SliceV: // s == nil
		c := and(eq(xv.Base, intLit(0)), eq(xv.Len, intLit(0)))
		if op == token.NEQ {
			c = not(c)
		}
		return &Scalar{T: c, Ty: rt}
	case *StructV:
		var la, lb []*Term
		leaves(x, &la)
		leaves(y, &lb)
		var cs []*Term
		for i := range la {
			if la[i].Sort == SF64 {
				cs = append(cs, app(SBool, "fp.eq", la[i], lb[i]))
			} else {
				cs = append(cs, eq(la[i], lb[i]))
			}
		}
		c := and(cs...)
		if op == token.NEQ {
			c = not(c)
		}
		return &Scalar{T: c, Ty: rt}
	}
	a, b := scal(x), scal(y)
	var r *Term
	switch a.Sort {
	case SBool:
		switch op {
		case token.EQL:
			r = eq(a, b)
		case token.NEQ:
			r = not(eq(a, b))
		case token.LAND, token.AND:
			r = and(a, b)
		case token.LOR, token.OR:
			r = or(a, b)
		}
	case SStr:
		switch op {
		case token.EQL:
			r = eq(a, b)
		case token.NEQ:
			r = not(eq(a, b))
		case token.LSS:
			r = app(SBool, "str.<", a, b)
		case token.GTR:
			r = app(SBool, "str.<", b, a)
		case token.LEQ:
			r = app(SBool, "str.<=", a, b)
		case token.GEQ:
			r = app(SBool, "str.<=", b, a)
		case token.ADD:
			r = app(SStr, "str.++", a, b)
		}
	case SF64:
		rm := mk("RoundingMode", "RNE")
		switch op {
		case token.EQL:
			r = app(SBool, "fp.eq", a, b)
		case token.NEQ:
			r = not(app(SBool, "fp.eq", a, b))
		case token.LSS:
			r = app(SBool, "fp.lt", a, b)
		case token.GTR:
			r = app(SBool, "fp.gt", a, b)
		case token.LEQ:
			r = app(SBool, "fp.leq", a, b)
		case token.GEQ:
			r = app(SBool, "fp.geq", a, b)
		case token.ADD:
			r = app(SF64, "fp.add", rm, a, b)
		case token.SUB:
			r = app(SF64, "fp.sub", rm, a, b)
		case token.MUL:
			r = app(SF64, "fp.mul", rm, a, b)
		case token.QUO:
			r = app(SF64, "fp.div", rm, a, b)
		}
	case SInt:
		switch op {
		case token.EQL:
			r = eq(a, b)
		case token.NEQ:
			r = not(eq(a, b))
		case token.LSS:
			r = lt(a, b)
		case token.GTR:
			r = lt(b, a)
		case token.LEQ:
			r = le(a, b)
		case token.GEQ:
			r = le(b, a)
		case token.ADD:
			r = wrapFor(t, add(a, b))
		case token.SUB:
			r = wrapFor(t, sub(a, b))
		case token.MUL:
			if isIntLit(a) || isIntLit(b) {
				r = wrapFor(t, app(SInt, "*", a, b))
			} else {
				// variable * variable: the identity  a*b = b==1 ? a : b==-1 ? -a : a*b  spares the solvers the
				// nonlinear term in the common "sign multiplier" shape
				r = ite(eq(b, intLit(1)), a, ite(eq(b, intLit(-1)), wrapFor(t, app(SInt, "-", a)), wrapFor(t, app(SInt, "*", a, b))))
			}
		case token.QUO:
			e.oblige(st, "nopanic.div", pos, not(eq(b, intLit(0))))
			r = wrapFor(t, app(SInt, "tdiv", a, b))
		case token.REM:
			e.oblige(st, "nopanic.div", pos, not(eq(b, intLit(0))))
			r = app(SInt, "tmod", a, b)
		}
	}
	if r == nil {
		e.note(fmt.Sprintf("abstracted binop %s on %s", op, a.Sort))
		r = e.fresh("binop", sortOfType(rt))
	}
	return &Scalar{T: r, Ty: rt}
}

func sortOfType(t types.Type) string {
	if b := basicOf(t); b != nil {
		return sortOfBasic(b)
	}
	return SInt
}

func (e *Exec) execInstr(fr *Frame, b *ssa.BasicBlock, ins ssa.Instruction, st *BState, edgeCond map[[2]int]*Term) {
	switch x := ins.(type) {
	case *ssa.DebugRef:
	case *ssa.Alloc:
		et := x.Type().(*types.Pointer).Elem()
		if cellLike(x) {
			if typeKey(et) == "strings.Builder" {
				k := "G|builder|content"
				st.heap[k] = sto(e.heapArr(st, k, arrSort(SInt, SStr)), intLit(-1000000-int64(x.Pos())), strLit(""))
			}
			st.cells[x] = zeroValue(et)
			fr.regs[x] = &PtrV{Ty: x.Type(), LV: &LVal{Alloc: x}}
		} else if at, ok := et.Underlying().(*types.Array); ok {
			// a heap array is a backing array: elements live in the A|T| heap so that slicing it keeps contents
			base := e.allocAddr(st)
			sl := &SliceV{Ty: types.NewSlice(at.Elem()), Base: base, Off: intLit(0), Len: intLit(at.Len()), Cap: intLit(at.Len())}
			for k := int64(0); k < at.Len(); k++ {
				e.storeElem(st, sl, intLit(k), at.Elem(), zeroValue(at.Elem()))
			}
			arrayAllocs[x] = sl
			fr.regs[x] = &PtrV{Ty: x.Type(), Addr: base}
		} else {
			addr := e.allocAddr(st)
			e.storeObj(st, addr, et, zeroValue(et))
			fr.regs[x] = &PtrV{Ty: x.Type(), Addr: addr}
			if typeKey(et) == "strings.Builder" {
				// the zero Builder is empty
				k := "G|builder|content"
				st.heap[k] = sto(e.heapArr(st, k, arrSort(SInt, SStr)), addr, strLit(""))
			}
		}
	case *ssa.Store:
		p := e.val(fr, x.Addr).(*PtrV)
		e.nilCheck(st, p, x.Pos())
		e.writeLV(st, p, x.Val.Type(), e.val(fr, x.Val))
	case *ssa.UnOp:
		fr.regs[x] = e.unop(fr, st, x)
	case *ssa.BinOp:
		fr.regs[x] = e.binop(st, x.Op, e.val(fr, x.X), e.val(fr, x.Y), x.X.Type(), x.Type(), x.Pos())
	case *ssa.FieldAddr:
		p := e.val(fr, x.X).(*PtrV)
		e.nilCheck(st, p, x.Pos())
		st0 := x.X.Type().Underlying().(*types.Pointer).Elem()
		var lv *LVal
		if p.LV != nil {
			lv = &LVal{Alloc: p.LV.Alloc, Heap: p.LV.Heap, HeapT: p.LV.HeapT, Sl: p.LV.Sl, Idx: p.LV.Idx, Path: append(append([]int{}, p.LV.Path...), x.Field)}
		} else {
			lv = &LVal{Heap: p.Addr, HeapT: st0, Path: []int{x.Field}}
		}
		fr.regs[x] = &PtrV{Ty: x.Type(), LV: lv}
	case *ssa.Field:
		fr.regs[x] = fieldOf(e.val(fr, x.X), x.Field)
	case *ssa.IndexAddr:
		idx := scal(e.val(fr, x.Index))
		switch xv := e.val(fr, x.X).(type) {
		case *SliceV:
			e.oblige(st, "nopanic.index", x.Pos(), and(le(intLit(0), idx), lt(idx, xv.Len)))
			fr.regs[x] = &PtrV{Ty: x.Type(), LV: &LVal{Sl: xv, Idx: idx}}
		case *PtrV: // pointer to array
			if sl, ok := arrayAllocs[x.X]; ok {
				fr.regs[x] = &PtrV{Ty: x.Type(), LV: &LVal{Sl: sl, Idx: idx}}
				break
			}
			at := x.X.Type().Underlying().(*types.Pointer).Elem().Underlying().(*types.Array)
			ci, ok := constIndex(idx)
			if !ok || xv.LV == nil && xv.Addr != nil {
				// heap array with constant index (varargs)
				if ok && xv.Addr != nil {
					fr.regs[x] = &PtrV{Ty: x.Type(), LV: &LVal{Heap: xv.Addr, HeapT: x.X.Type().Underlying().(*types.Pointer).Elem(), Path: []int{ci}}}
					break
				}
				panic("symbolic index into array")
			}
			_ = at
			lv := *xv.LV
			lv.Path = append(append([]int{}, xv.LV.Path...), ci)
			fr.regs[x] = &PtrV{Ty: x.Type(), LV: &lv}
		default:
			panic(fmt.Sprintf("IndexAddr on %T", xv))
		}
	case *ssa.Index:
		// string index or array value index
		if basicOf(x.X.Type()) != nil { // string
			s := scal(e.val(fr, x.X))
			idx := scal(e.val(fr, x.Index))
			e.oblige(st, "nopanic.index", x.Pos(), and(le(intLit(0), idx), lt(idx, e.strLen(s))))
			fr.regs[x] = &Scalar{T: app(SInt, "str.to_code", app(SStr, "str.at", s, idx)), Ty: x.Type()}
		} else {
			panic("Index on array value")
		}
	case *ssa.Slice:
		fr.regs[x] = e.sliceOp(fr, st, x)
	case *ssa.MakeSlice:
		ln := scal(e.val(fr, x.Len))
		cp := scal(e.val(fr, x.Cap))
		e.oblige(st, "nopanic.makeslice", x.Pos(), and(le(intLit(0), ln), le(ln, cp)))
		base := e.allocAddr(st) // a fresh backing array: distinct from every array allocated before
		sl := &SliceV{Ty: x.Type(), Base: base, Off: intLit(0), Len: ln, Cap: cp}
		// zero-initialised contents: constant arrays per leaf
		et := x.Type().Underlying().(*types.Slice).Elem()
		build(et, "", func(path, sort string, _ types.Type) *Term {
			k := heapKey("A", et, path)
			arr := e.heapArr(st, k, arrSort(SInt, arrSort(SInt, sort)))
			z := zeroOf(sort)
			if strings.HasSuffix(path, ".ns") {
				z = bigLit("(- 62135596800000000000)")
			}
			st.heap[k] = sto(arr, base, mk(arrSort(SInt, sort), "((as const "+arrSort(SInt, sort)+") "+newPrinter().str(z)+")"))
			return z
		})
		fr.regs[x] = sl
	case *ssa.Convert:
		fr.regs[x] = e.convert(fr, st, x)
	case *ssa.ChangeType:
		fr.regs[x] = retype(e.val(fr, x.X), x.Type())
	case *ssa.MakeInterface:
		payload := e.val(fr, x.X)
		var ref *Term
		if p, ok := payload.(*PtrV); ok && p.Addr != nil {
			ref = p.Addr
		} else if _, isPtr := payload.(*PtrV); isPtr {
			ref = e.fresh("ifc.ref", SInt)
		} else {
			// box the value
			ref = e.allocAddr(st)
			e.storeObj(st, ref, x.X.Type(), payload)
		}
		iv := &IfaceV{Ty: x.Type(), Tag: e.typeID(x.X.Type()), Ref: ref}
		madeIface[iv] = x
		fr.regs[x] = iv
	case *ssa.ChangeInterface:
		v := e.val(fr, x.X).(*IfaceV)
		fr.regs[x] = &IfaceV{Ty: x.Type(), Tag: v.Tag, Ref: v.Ref}
	case *ssa.Extract:
		fr.regs[x] = e.val(fr, x.Tuple).(*TupleV).Elems[x.Index]
	case *ssa.Phi:
		var cur SV
		for i, p := range b.Preds {
			ec := edgeCond[[2]int{p.Index, b.Index}]
			if ec == nil {
				ec = tTrue
			}
			v := e.val(fr, x.Edges[i])
			if cur == nil {
				cur = v
			} else {
				cur = mergeSV(and(exitReach[p], ec), v, cur, x.Type())
			}
		}
		fr.regs[x] = cur
	case *ssa.Call:
		e.curFrame = fr
		fr.regs[x] = e.call(fr, st, x)
	case *ssa.MakeClosure:
		var binds []SV
		for _, bv := range x.Bindings {
			binds = append(binds, e.val(fr, bv))
		}
		id := e.funcID(x.Fn.(*ssa.Function))
		closures[x] = binds
		fr.regs[x] = &Scalar{T: id, Ty: x.Type()}
		closureOf[fr.regs[x]] = x
	case *ssa.If:
		c := scal(e.val(fr, x.Cond))
		exitReach[b] = st.reach
		edgeCond[[2]int{b.Index, b.Succs[0].Index}] = c
		edgeCond[[2]int{b.Index, b.Succs[1].Index}] = not(c)
	case *ssa.Jump:
		exitReach[b] = st.reach
	case *ssa.Return:
		var vals []SV
		for _, r := range x.Results {
			vals = append(vals, e.val(fr, r))
		}
		if c := e.contractOf(fr.fn); c != nil && fr.depth == 0 && !fr.summary {
			env := e.specEnv(fr, st, nil)
			for k, v := range vals {
				env.bound[fmt.Sprintf("result%d", k)] = v
			}
			if len(vals) > 0 {
				env.bound["result"] = vals[0]
			}
			for k, en := range c.Ensures {
				e.obligeNamed(st, clauseLabel(en, "ensures", k), x.Pos(), scal(env.evalGoal(en.Expr)))
			}
		}
		fr.returns = append(fr.returns, retPoint{reach: st.reach, vals: vals, st: st.clone()})
	case *ssa.Panic:
		// the panic point is recorded first: the obligation below is assumed afterwards (which cuts the path)
		if pv, ok := e.val(fr, x.X).(*IfaceV); ok {
			fr.panics = append(fr.panics, retPoint{reach: st.reach, vals: []SV{pv}, st: st.clone()})
		}
		// (not assumed afterwards: an explicit panic may be recovered further up, the path stays alive as a panic point)
		if goal := implies(st.reach, tFalse); goal != tTrue && e.quiet == 0 {
			e.oblCount["nopanic.explicit"]++
			e.obls = append(e.obls, &Obligation{Name: fmt.Sprintf("%s/%s#%d", e.base, "nopanic.explicit", e.oblCount["nopanic.explicit"]), Kind: "nopanic.explicit", Cond: goal, Pos: x.Pos(), NAssum: len(e.assumes)})
		}
	case *ssa.Defer:
		fr.defers = append(fr.defers, x)
	case *ssa.RunDefers:
		// normal exit: the deferred function literals run with recover() == nil
		for i := len(fr.defers) - 1; i >= 0; i-- {
			d := fr.defers[i]
			var df *ssa.Function
			var binds []SV
			if mc, ok := d.Call.Value.(*ssa.MakeClosure); ok {
				df, _ = mc.Fn.(*ssa.Function)
				binds = closures[mc]
			} else if f, ok := d.Call.Value.(*ssa.Function); ok && f.Parent() != nil {
				df = f
			}
			if df == nil || len(df.Blocks) == 0 || fr.depth >= maxInlineDepth {
				e.note("a deferred call is not executed (not a function literal of the module)")
				continue
			}
			var args []SV
			for _, a := range d.Call.Args {
				args = append(args, e.val(fr, a))
			}
			delete(st.ghost, "$panicval")
			sub := st.clone()
			_, out := e.runInline(fr, df, sub, args, binds)
			fr.panics = append(fr.panics, e.escaped...)
			e.escaped = nil
			st.cells, st.heap, st.ghost, st.hepoch, st.reach = out.cells, out.heap, out.ghost, out.hepoch, out.reach
		}
	case *ssa.TypeAssert:
		v := e.val(fr, x.X).(*IfaceV)
		ok := eq(v.Tag, e.typeID(x.AssertedType))
		var res SV
		if it, isIface := x.AssertedType.Underlying().(*types.Interface); isIface {
			if _, disp := dispatchable(x.AssertedType); disp {
				ok = e.assertsTo(fr.fn.Prog, v, it)
			} else {
				ok = e.fresh("implements", SBool)
			}
			res = &IfaceV{Ty: x.AssertedType, Tag: v.Tag, Ref: v.Ref}
		} else if _, isPtr := x.AssertedType.Underlying().(*types.Pointer); isPtr {
			res = &PtrV{Ty: x.AssertedType, Addr: v.Ref}
		} else {
			res = e.loadObj(st, v.Ref, x.AssertedType)
		}
		if x.CommaOk {
			fr.regs[x] = &TupleV{Elems: []SV{res, &Scalar{T: ok, Ty: types.Typ[types.Bool]}}}
		} else {
			e.oblige(st, "nopanic.typeassert", x.Pos(), ok)
			fr.regs[x] = res
		}
	case *ssa.Range:
		fr.regs[x] = &Scalar{T: e.fresh("iter", SInt), Ty: x.Type()}
		rangeOver[x] = e.val(fr, x.X)
	case *ssa.Next:
		if x.IsString {
			s := scal(rangeOver[x.Iter.(*ssa.Range)])
			ok := e.fresh("next.ok", SBool)
			k := e.fresh("next.k", SInt)
			v := e.fresh("next.rune", SInt)
			e.assume(implies(ok, and(le(intLit(0), k), lt(k, e.strLen(s)), le(intLit(0), v), le(v, intLit(0x10FFFF)))))
			fr.regs[x] = &TupleV{Elems: []SV{&Scalar{T: ok, Ty: types.Typ[types.Bool]}, &Scalar{T: k, Ty: types.Typ[types.Int]}, &Scalar{T: v, Ty: types.Typ[types.Rune]}}}
			e.note("string range iterator abstracted (offsets unordered)")
		} else {
			fr.regs[x] = e.freshSV(x.Type(), "next", st.reach, false)
			e.note("map range abstracted")
		}
	case *ssa.Select:
		// a select picks any of its cases (all arrival orders are covered); received values are arbitrary messages
		// that satisfy the channel's `chan T assumes` clauses. Ghost: selected() = index of the chosen case.
		e.note("select abstracted: nondeterministic choice among its cases")
		tv := e.freshSV(x.Type(), "select", st.reach, false).(*TupleV)
		idx := scal(tv.Elems[0])
		hi := int64(len(x.States))
		lo := int64(0)
		if !x.Blocking {
			lo = -1
		}
		e.assume(and(le(intLit(lo), idx), lt(idx, intLit(hi))))
		st.ghost["$selected"] = intSV(idx)
		ghostTypes["$selected"] = types.Typ[types.Int]
		k := 2
		for _, s := range x.States {
			if s.Dir == types.RecvOnly {
				e.chanAssume(fr, st, s.Chan.Type().Underlying().(*types.Chan).Elem(), tv.Elems[k])
				k++
			}
		}
		fr.regs[x] = tv
	case *ssa.Lookup, *ssa.MakeMap, *ssa.MapUpdate, *ssa.Go, *ssa.Send, *ssa.MakeChan:
		e.note(fmt.Sprintf("abstracted instruction %T", ins))
		if v, ok := ins.(ssa.Value); ok {
			fr.regs[v] = e.freshSV(v.Type(), "abs", st.reach, false)
		}
	default:
		panic(fmt.Sprintf("unsupported instruction %T: %s", ins, ins))
	}
}

var exitReach = map[*ssa.BasicBlock]*Term{}
var arrayAllocs = map[ssa.Value]*SliceV{}
var madeIface = map[*IfaceV]*ssa.MakeInterface{}
var closures = map[*ssa.MakeClosure][]SV{}
var closureOf = map[SV]*ssa.MakeClosure{}
var rangeOver = map[*ssa.Range]SV{}

func constIndex(t *Term) (int, bool) {
	if len(t.Args) == 0 {
		var n int
		if _, err := fmt.Sscanf(t.Op, "%d", &n); err == nil {
			return n, true
		}
	}
	return 0, false
}

func retype(sv SV, t types.Type) SV {
	switch v := sv.(type) {
	case *Scalar:
		return &Scalar{T: v.T, Ty: t}
	case *SliceV:
		return &SliceV{Ty: t, Base: v.Base, Off: v.Off, Len: v.Len, Cap: v.Cap}
	case *StructV:
		return &StructV{Ty: t, Fields: v.Fields}
	}
	return sv
}

func (e *Exec) nilCheck(st *BState, p *PtrV, pos token.Pos) {
	if p.LV == nil && p.Addr != nil {
		e.oblige(st, "nopanic.nil", pos, not(eq(p.Addr, intLit(0))))
	} else if p.LV != nil && p.Nil != nil && p.Nil != tFalse {
		e.oblige(st, "nopanic.nil", pos, not(p.Nil))
	}
}

func (e *Exec) unop(fr *Frame, st *BState, x *ssa.UnOp) SV {
	switch x.Op {
	case token.MUL: // load
		p := e.val(fr, x.X).(*PtrV)
		e.nilCheck(st, p, x.Pos())
		if p.LV != nil && p.LV.Alloc != nil && len(p.LV.Path) == 0 && volatileCell(p.LV.Alloc) {
			// a variable that a goroutine started by this function assigns: any value may be read
			e.note("variable " + p.LV.Alloc.Comment + " is written by a goroutine: every read yields an arbitrary value")
			return e.freshSV(x.Type(), "volatile."+p.LV.Alloc.Comment, st.reach, false)
		}
		return e.readLV(st, p, x.Type())
	case token.NOT:
		return &Scalar{T: not(scal(e.val(fr, x.X))), Ty: x.Type()}
	case token.SUB:
		a := scal(e.val(fr, x.X))
		if a.Sort == SF64 {
			return &Scalar{T: app(SF64, "fp.neg", a), Ty: x.Type()}
		}
		return &Scalar{T: wrapFor(x.Type(), app(SInt, "-", a)), Ty: x.Type()}
	case token.ARROW:
		e.note("channel receive abstracted (any message that satisfies the channel's `chan T assumes` clauses)")
		rv := e.freshSV(x.Type(), "recv", st.reach, false)
		msg := rv
		if tv, ok := rv.(*TupleV); ok && len(tv.Elems) > 0 {
			msg = tv.Elems[0]
		}
		e.chanAssume(fr, st, x.X.Type().Underlying().(*types.Chan).Elem(), msg)
		return rv
	}
	e.note("abstracted unop " + x.Op.String())
	return e.freshSV(x.Type(), "unop", st.reach, false)
}

func (e *Exec) sliceOp(fr *Frame, st *BState, x *ssa.Slice) SV {
	get := func(v ssa.Value, def *Term) *Term {
		if v == nil {
			return def
		}
		return scal(e.val(fr, v))
	}
	switch xv := e.val(fr, x.X).(type) {
	case *Scalar: // string
		n := e.strLen(xv.T)
		lo := get(x.Low, intLit(0))
		hi := get(x.High, n)
		e.oblige(st, "nopanic.slice", x.Pos(), and(le(intLit(0), lo), le(lo, hi), le(hi, n)))
		return &Scalar{T: app(SStr, "str.substr", xv.T, lo, sub(hi, lo)), Ty: x.Type()}
	case *SliceV:
		lo := get(x.Low, intLit(0))
		hi := get(x.High, xv.Len)
		e.oblige(st, "nopanic.slice", x.Pos(), and(le(intLit(0), lo), le(lo, hi), le(hi, xv.Cap)))
		return &SliceV{Ty: x.Type(), Base: xv.Base, Off: add(xv.Off, lo), Len: sub(hi, lo), Cap: sub(xv.Cap, lo)}
	case *PtrV: // pointer to array -> slice (varargs)
		if sl, ok := arrayAllocs[x.X]; ok && x.Low == nil && x.High == nil {
			return &SliceV{Ty: x.Type(), Base: sl.Base, Off: sl.Off, Len: sl.Len, Cap: sl.Cap}
		}
		at := x.X.Type().Underlying().(*types.Pointer).Elem().Underlying().(*types.Array)
		base := e.fresh("arr.base", SInt)
		e.note("array-to-slice conversion: contents not tracked")
		return &SliceV{Ty: x.Type(), Base: base, Off: intLit(0), Len: intLit(at.Len()), Cap: intLit(at.Len())}
	}
	panic("sliceOp")
}

func (e *Exec) convert(fr *Frame, st *BState, x *ssa.Convert) SV {
	src := e.val(fr, x.X)
	from, to := basicOf(x.X.Type()), basicOf(x.Type())
	if from != nil && to != nil {
		a := scal(src)
		fi, ti := from.Info(), to.Info()
		switch {
		case fi&types.IsInteger != 0 && ti&types.IsInteger != 0:
			return &Scalar{T: wrapFor(x.Type(), a), Ty: x.Type()}
		case fi&types.IsInteger != 0 && ti&types.IsFloat != 0:
			return &Scalar{T: app(SF64, "(_ to_fp 11 53)", mk("RoundingMode", "RNE"), app("Real", "to_real", a)), Ty: x.Type()}
		case fi&types.IsFloat != 0 && ti&types.IsInteger != 0:
			// Go: result unspecified when out of range
			r := e.fresh("f2i", SInt)
			inRange := and(app(SBool, "fp.leq", f64Lit(-9223372036854775808.0), a), app(SBool, "fp.lt", a, f64Lit(9223372036854775808.0)))
			e.assume(and(le(bigLit("MIN64"), r), le(r, bigLit("MAX64"))))
			e.assume(implies(and(st.reach, inRange), eq(app("Real", "to_real", r), app("Real", "fp.to_real", app(SF64, "fp.roundToIntegral", mk("RoundingMode", "RTZ"), a)))))
			return &Scalar{T: r, Ty: x.Type()}
		case fi&types.IsFloat != 0 && ti&types.IsFloat != 0:
			return &Scalar{T: a, Ty: x.Type()}
		case fi&types.IsString != 0 && ti&types.IsString != 0:
			return &Scalar{T: a, Ty: x.Type()}
		}
	}
	e.note(fmt.Sprintf("abstracted conversion %s -> %s", x.X.Type(), x.Type()))
	res := e.freshSV(x.Type(), "conv", st.reach, false)
	// length facts for string <-> slice conversions
	if sl, ok := res.(*SliceV); ok {
		if s, ok2 := src.(*Scalar); ok2 && s.T.Sort == SStr {
			et := x.Type().Underlying().(*types.Slice).Elem()
			if basicOf(et) != nil && basicOf(et).Kind() == types.Uint8 {
				e.assume(eq(sl.Len, e.strLen(s.T)))
				byteSliceOf[sl.Base] = s.T
			} else {
				e.assume(le(sl.Len, e.strLen(s.T)))
			}
			e.assume(le(sl.Len, sl.Cap))
		}
	}
	return res
}

// strLen is len(s) of a Go string: an int, so at most MaxInt64.
func (e *Exec) strLen(s *Term) *Term {
	n := app(SInt, "str.len", s)
	if !hasBound(s) && !e.strLenSeen[s] {
		if e.strLenSeen == nil {
			e.strLenSeen = map[*Term]bool{}
		}
		e.strLenSeen[s] = true
		e.assume(le(n, bigLit("MAX64")))
	}
	return n
}

// chanAssume: facts the contract files state about every message received from a channel of this element type.
func (e *Exec) chanAssume(fr *Frame, st *BState, elem types.Type, msg SV) {
	if e.cs == nil {
		return
	}
	for name, cls := range e.cs.ChanMsg {
		for _, c := range cls {
			t, err := resolveTypeString(c.Pkg, name)
			if err != nil || !types.Identical(t, elem) {
				continue
			}
			e.saneInput(st, elem, msg, st.reach)
			env := &SpecEnv{e: e, fr: fr, st: st, bound: map[string]SV{"msg": msg}, cs: e.cs, pkg: c.Pkg}
			e.assume(implies(st.reach, scal(env.eval(c.Expr))))
			e.assumed = append(e.assumed, "chan "+name+" assumes "+c.Src)
		}
	}
}

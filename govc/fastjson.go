package main

import (
	"go/ast"
	"go/types"

	"golang.org/x/tools/go/ssa"
)

// Theory of github.com/valyala/fastjson values under construction (assumed contract of the arena constructors and of
// Set / SetArrayItem): a JSON value is a ghost record kind / int / float / string / items / fields at its address.
// kinds: 0 null, 1 integer number, 2 float number, 3 true, 4 false, 5 string, 6 array, 7 object.
const (
	jKind   = "J|kind"
	jInt    = "J|int"
	jFloat  = "J|float"
	jStr    = "J|str"
	jLen    = "J|len"    // array: number of items; object: number of Set calls
	jElem   = "J|elem"   // array: index -> item address
	jField  = "J|field"  // object: field name -> value address
	jHasFld = "J|hasfld" // object: field name present
	jNameAt = "J|nameat" // object: k-th Set call's name (order of fields)
)

var sortArrISt = arrSort(SInt, SStr)
var sortArrStI = arrSort(SStr, SInt)
var sortArrStB = arrSort(SStr, SBool)

func init() {
	arr := func(e *Exec, st *BState, k, sort string) *Term { return e.heapArr(st, k, sort) }
	newVal := func(e *Exec, st *BState, x *ssa.Call, kind int64) (*Term, SV) {
		a := e.allocAddr(st)
		st.heap[jKind] = sto(arr(e, st, jKind, sortArrII), a, intLit(kind))
		return a, &PtrV{Ty: x.Type(), Addr: a}
	}
	pfx := "(*github.com/valyala/fastjson.Arena)."
	externs[pfx+"NewNull"] = func(e *Exec, st *BState, x *ssa.Call, args []SV) SV { _, p := newVal(e, st, x, 0); return p }
	externs[pfx+"NewTrue"] = func(e *Exec, st *BState, x *ssa.Call, args []SV) SV { _, p := newVal(e, st, x, 3); return p }
	externs[pfx+"NewFalse"] = func(e *Exec, st *BState, x *ssa.Call, args []SV) SV { _, p := newVal(e, st, x, 4); return p }
	externs[pfx+"NewNumberInt"] = func(e *Exec, st *BState, x *ssa.Call, args []SV) SV {
		a, p := newVal(e, st, x, 1)
		st.heap[jInt] = sto(arr(e, st, jInt, sortArrII), a, scal(args[1]))
		return p
	}
	externs[pfx+"NewNumberFloat64"] = func(e *Exec, st *BState, x *ssa.Call, args []SV) SV {
		a, p := newVal(e, st, x, 2)
		st.heap[jFloat] = sto(arr(e, st, jFloat, arrSort(SInt, SF64)), a, scal(args[1]))
		return p
	}
	externs[pfx+"NewString"] = func(e *Exec, st *BState, x *ssa.Call, args []SV) SV {
		a, p := newVal(e, st, x, 5)
		st.heap[jStr] = sto(arr(e, st, jStr, sortArrISt), a, scal(args[1]))
		return p
	}
	externs[pfx+"NewArray"] = func(e *Exec, st *BState, x *ssa.Call, args []SV) SV {
		a, p := newVal(e, st, x, 6)
		st.heap[jLen] = sto(arr(e, st, jLen, sortArrII), a, intLit(0))
		return p
	}
	externs[pfx+"NewObject"] = func(e *Exec, st *BState, x *ssa.Call, args []SV) SV {
		a, p := newVal(e, st, x, 7)
		st.heap[jLen] = sto(arr(e, st, jLen, sortArrII), a, intLit(0))
		h := arr(e, st, jHasFld, arrSort(SInt, sortArrStB))
		st.heap[jHasFld] = sto(h, a, mk(sortArrStB, "((as const "+sortArrStB+") false)"))
		return p
	}
	externs[pfx+"Reset"] = func(e *Exec, st *BState, x *ssa.Call, args []SV) SV { return &TupleV{} }
	vp := "(*github.com/valyala/fastjson.Value)."
	externs[vp+"SetArrayItem"] = func(e *Exec, st *BState, x *ssa.Call, args []SV) SV {
		a, idx, v := args[0].(*PtrV).Addr, scal(args[1]), args[2].(*PtrV).Addr
		el := arr(e, st, jElem, arrSort(SInt, sortArrII))
		st.heap[jElem] = sto(el, a, sto(sel(el, a, sortArrII), idx, v))
		ln := arr(e, st, jLen, sortArrII)
		cur := sel(ln, a, SInt)
		st.heap[jLen] = sto(ln, a, ite(lt(idx, cur), cur, add(idx, intLit(1))))
		return &TupleV{}
	}
	externs[vp+"Set"] = func(e *Exec, st *BState, x *ssa.Call, args []SV) SV {
		a, name, v := args[0].(*PtrV).Addr, scal(args[1]), args[2].(*PtrV).Addr
		fl := arr(e, st, jField, arrSort(SInt, sortArrStI))
		st.heap[jField] = sto(fl, a, sto(sel(fl, a, sortArrStI), name, v))
		hf := arr(e, st, jHasFld, arrSort(SInt, sortArrStB))
		st.heap[jHasFld] = sto(hf, a, sto(sel(hf, a, sortArrStB), name, tTrue))
		ln := arr(e, st, jLen, sortArrII)
		cur := sel(ln, a, SInt)
		na := arr(e, st, jNameAt, arrSort(SInt, sortArrISt))
		st.heap[jNameAt] = sto(na, a, sto(sel(na, a, sortArrISt), cur, name))
		st.heap[jLen] = sto(ln, a, add(cur, intLit(1)))
		return &TupleV{}
	}
	externs[vp+"MarshalTo"] = func(e *Exec, st *BState, x *ssa.Call, args []SV) SV {
		// marshaled(): the value most recently serialised (ghost), for postconditions about what was written
		st.ghost["$marshaled"] = args[0]
		ghostTypes["$marshaled"] = x.Call.Args[0].Type()
		return e.freshSV(x.Type(), "marshal", st.reach, false)
	}
}

// spec view: jkind(p) jint(p) jfloat(p) jstr(p) jlen(p) jelem(p, i) jfield(p, name) jhas(p, name) jname(p, k)
func (env *SpecEnv) jsonSpec(name string, n *ast.CallExpr) (SV, bool) {
	e, st := env.e, env.st
	addr := func() *Term { return env.eval(n.Args[0]).(*PtrV).Addr }
	switch name {
	case "jkind":
		return intSV(sel(e.heapArr(st, jKind, sortArrII), addr(), SInt)), true
	case "jint":
		return intSV(sel(e.heapArr(st, jInt, sortArrII), addr(), SInt)), true
	case "jfloat":
		return &Scalar{T: sel(e.heapArr(st, jFloat, arrSort(SInt, SF64)), addr(), SF64), Ty: types.Typ[types.Float64]}, true
	case "jstr":
		return &Scalar{T: sel(e.heapArr(st, jStr, sortArrISt), addr(), SStr), Ty: types.Typ[types.String]}, true
	case "jlen":
		return intSV(sel(e.heapArr(st, jLen, sortArrII), addr(), SInt)), true
	case "jelem":
		p := env.eval(n.Args[0]).(*PtrV)
		return &PtrV{Ty: p.Ty, Addr: sel(sel(e.heapArr(st, jElem, arrSort(SInt, sortArrII)), p.Addr, sortArrII), scal(env.eval(n.Args[1])), SInt)}, true
	case "jfield":
		p := env.eval(n.Args[0]).(*PtrV)
		return &PtrV{Ty: p.Ty, Addr: sel(sel(e.heapArr(st, jField, arrSort(SInt, sortArrStI)), p.Addr, sortArrStI), scal(env.eval(n.Args[1])), SInt)}, true
	case "jhas":
		return boolSV(sel(sel(e.heapArr(st, jHasFld, arrSort(SInt, sortArrStB)), addr(), sortArrStB), scal(env.eval(n.Args[1])), SBool)), true
	case "jname":
		return &Scalar{T: sel(sel(e.heapArr(st, jNameAt, arrSort(SInt, sortArrISt)), addr(), sortArrISt), scal(env.eval(n.Args[1])), SStr), Ty: types.Typ[types.String]}, true
	case "marshaled":
		if v, ok := st.ghost["$marshaled"]; ok {
			return v, true
		}
		panic("marshaled(): no MarshalTo before this point")
	case "isFinite":
		f := scal(env.eval(n.Args[0]))
		return boolSV(and(not(app(SBool, "fp.isNaN", f)), not(app(SBool, "fp.isInfinite", f)))), true
	}
	return nil, false
}

package main

import (
	"fmt"
	"go/ast"
	"go/constant"
	"go/token"
	"go/types"
	"sort"
	"strings"

	"golang.org/x/tools/go/ssa"
)

type Obligation struct {
	Name   string
	Kind   string
	Cond   *Term // must hold (already guarded by reach)
	Pos    token.Pos
	NAssum int // number of global assumptions visible
	Notes  []string
}

type BState struct {
	reach *Term
	cells map[*ssa.Alloc]SV
	heap  map[string]*Term
	ghost map[string]SV
	hepoch map[string]int // havoc epochs per heap-key prefix: untouched keys under a havoc'd prefix get fresh symbols
}

func newState() *BState {
	return &BState{reach: tTrue, cells: map[*ssa.Alloc]SV{}, heap: map[string]*Term{}, ghost: map[string]SV{}, hepoch: map[string]int{}}
}

func (s *BState) clone() *BState {
	n := &BState{reach: s.reach, cells: map[*ssa.Alloc]SV{}, heap: map[string]*Term{}, ghost: map[string]SV{}, hepoch: map[string]int{}}
	for k, v := range s.hepoch {
		n.hepoch[k] = v
	}
	for k, v := range s.ghost {
		n.ghost[k] = v
	}
	for k, v := range s.cells {
		n.cells[k] = v
	}
	for k, v := range s.heap {
		n.heap[k] = v
	}
	return n
}

type Frame struct {
	fn      *ssa.Function
	regs    map[ssa.Value]SV
	depth   int
	prefix  string
	returns []retPoint
	bind    []SV // closure bindings (free vars)
}

type retPoint struct {
	reach *Term
	vals  []SV
	st    *BState
}

type Exec struct {
	assumes  []*Term
	obls     []*Obligation
	inputs   []*Term
	nfresh   int
	notes    map[string]bool
	typeIDs  map[string]int
	oblCount map[string]int
	base     string // obligation name prefix
	fset     *token.FileSet
	contracts map[*ssa.Function]*FuncContract
	entry     *BState
	cs        *Contracts
	pkg       *types.Package
}

func newExec(base string, fset *token.FileSet) *Exec {
	return &Exec{notes: map[string]bool{}, typeIDs: map[string]int{}, oblCount: map[string]int{}, base: base, fset: fset}
}

func (e *Exec) note(s string) { e.notes[s] = true }

func (e *Exec) fresh(hint, sort string) *Term {
	e.nfresh++
	name := fmt.Sprintf("%s!%d", sanitize(hint), e.nfresh)
	return konst(name, sort)
}

func sanitize(s string) string {
	var sb strings.Builder
	for _, r := range s {
		if r >= 'a' && r <= 'z' || r >= 'A' && r <= 'Z' || r >= '0' && r <= '9' || r == '_' || r == '.' {
			sb.WriteRune(r)
		} else {
			sb.WriteByte('_')
		}
	}
	if sb.Len() == 0 {
		return "v"
	}
	return sb.String()
}

// freshSV makes an unconstrained value of type t; integer leaves get range facts under guard.
func (e *Exec) freshSV(t types.Type, hint string, guard *Term, input bool) SV {
	return build(t, hint, func(path, sort string, ty types.Type) *Term {
		x := e.fresh(path, sort)
		if input {
			e.inputs = append(e.inputs, x)
		}
		if sort == SInt {
			if ty != nil {
				if b, ok := ty.Underlying().(*types.Basic); ok {
					if lo, hi, ok := intRange(b); ok {
						e.assume(and(le(bigLit(lo), x), le(x, bigLit(hi))))
					}
				}
			} else if strings.HasSuffix(path, ".len") || strings.HasSuffix(path, ".cap") || strings.HasSuffix(path, ".off") {
				e.assume(and(le(intLit(0), x), le(x, bigLit("MAX64")))) // Go ints
			} else if strings.HasSuffix(path, ".base") || strings.HasSuffix(path, ".addr") {
				e.assume(le(intLit(0), x))
			}
		}
		return x
	})
}

func (e *Exec) assume(t *Term) {
	if t != tTrue {
		e.assumes = append(e.assumes, t)
	}
}

func (e *Exec) obligeNamed(st *BState, name string, pos token.Pos, cond *Term) {
	goal := implies(st.reach, cond)
	if goal == tTrue {
		return
	}
	e.obls = append(e.obls, &Obligation{Name: e.base + "/" + name, Kind: name, Cond: goal, Pos: pos, NAssum: len(e.assumes)})
	e.assume(goal)
}

func loopOrdinal(loops map[*ssa.BasicBlock]*loopInfo, li *loopInfo) int {
	n := 1
	for h := range loops {
		if h.Index < li.header.Index {
			n++
		}
	}
	return n
}

func (e *Exec) loopInvs(fn *ssa.Function, loops map[*ssa.BasicBlock]*loopInfo, li *loopInfo) []ast.Expr {
	c := e.contracts[fn]
	if c == nil {
		return nil
	}
	return c.LoopInv[loopOrdinal(loops, li)]
}

func (e *Exec) specEnv(fr *Frame, st *BState, li *loopInfo) *SpecEnv {
	env := &SpecEnv{e: e, fr: fr, st: st, bound: map[string]SV{}, cs: e.cs, pkg: e.pkg}
	if li != nil {
		// position of the loop: the latest position among the header's instructions
		for _, ins := range li.header.Instrs {
			if ins.Pos() > env.atPos {
				env.atPos = ins.Pos()
			}
		}
		// $k for range-over-slice loops: completed iterations = rangeindex + 1
		for _, ins := range li.header.Instrs {
			if u, ok := ins.(*ssa.UnOp); ok && u.Op == token.MUL {
				if a, ok := u.X.(*ssa.Alloc); ok && a.Comment == "rangeindex" {
					if v, ok := st.cells[a]; ok {
						env.bound["k_"] = intSV(add(scal(v), intLit(1)))
					}
				}
			}
		}
	}
	return env
}

func (e *Exec) oblige(st *BState, kind string, pos token.Pos, cond *Term) {
	goal := implies(st.reach, cond)
	if goal == tTrue {
		return
	}
	e.oblCount[kind]++
	name := fmt.Sprintf("%s/%s#%d", e.base, kind, e.oblCount[kind])
	e.obls = append(e.obls, &Obligation{Name: name, Kind: kind, Cond: goal, Pos: pos, NAssum: len(e.assumes)})
	// after checking, assume it on this path
	e.assume(goal)
}

func (e *Exec) typeID(t types.Type) *Term {
	k := typeKey(t)
	id, ok := e.typeIDs[k]
	if !ok {
		id = len(e.typeIDs) + 1
		e.typeIDs[k] = id
	}
	return intLit(int64(id))
}

// ---------- heap (struct-of-arrays) ----------

func heapKey(kind string, t types.Type, path string) string {
	return kind + "|" + typeKey(t) + "|" + path
}

func (e *Exec) heapArr(st *BState, key, sort string) *Term {
	if h, ok := st.heap[key]; ok {
		return h
	}
	ep := 0
	for pre, n := range st.hepoch {
		if strings.HasPrefix(key, pre) && n > ep {
			ep = n
		}
	}
	name := "heap!" + sanitize(key)
	if ep > 0 {
		name = fmt.Sprintf("%s@%d", name, ep)
	}
	h := konst(name, sort)
	st.heap[key] = h
	return h
}

// loadElem reads element idx of a slice whose elements have type et.
// wellTyped: every integer read from the heap lies in the range of its Go type (heap type-safety invariant).
func (e *Exec) wellTyped(t *Term, sort string, ty types.Type, path string) *Term {
	if sort != SInt || hasBound(t) {
		return t
	}
	if ty != nil {
		if b, ok := ty.Underlying().(*types.Basic); ok {
			if lo, hi, ok := intRange(b); ok {
				e.assume(and(le(bigLit(lo), t), le(t, bigLit(hi))))
			}
		}
	} else if strings.HasSuffix(path, ".len") || strings.HasSuffix(path, ".cap") || strings.HasSuffix(path, ".off") {
		e.assume(and(le(intLit(0), t), le(t, bigLit("MAX64"))))
	}
	return t
}

func (e *Exec) loadElem(st *BState, sl *SliceV, idx *Term, et types.Type) SV {
	return build(et, "", func(path, sort string, ty types.Type) *Term {
		k := heapKey("A", et, path)
		arr := e.heapArr(st, k, arrSort(SInt, arrSort(SInt, sort)))
		inner := sel(arr, sl.Base, arrSort(SInt, sort))
		return e.wellTyped(sel(inner, add(sl.Off, idx), sort), sort, ty, path)
	})
}

func (e *Exec) storeElem(st *BState, sl *SliceV, idx *Term, et types.Type, v SV) {
	var ls []*Term
	leaves(v, &ls)
	i := 0
	build(et, "", func(path, sort string, _ types.Type) *Term {
		k := heapKey("A", et, path)
		arr := e.heapArr(st, k, arrSort(SInt, arrSort(SInt, sort)))
		inner := sel(arr, sl.Base, arrSort(SInt, sort))
		st.heap[k] = sto(arr, sl.Base, sto(inner, add(sl.Off, idx), ls[i]))
		i++
		return ls[i-1]
	})
}

func (e *Exec) loadObj(st *BState, addr *Term, t types.Type) SV {
	return build(t, "", func(path, sort string, ty types.Type) *Term {
		k := heapKey("H", t, path)
		arr := e.heapArr(st, k, arrSort(SInt, sort))
		return e.wellTyped(sel(arr, addr, sort), sort, ty, path)
	})
}

func (e *Exec) storeObj(st *BState, addr *Term, t types.Type, v SV) {
	var ls []*Term
	leaves(v, &ls)
	i := 0
	build(t, "", func(path, sort string, _ types.Type) *Term {
		k := heapKey("H", t, path)
		arr := e.heapArr(st, k, arrSort(SInt, sort))
		st.heap[k] = sto(arr, addr, ls[i])
		i++
		return ls[i-1]
	})
}

// ---------- l-values ----------

func (e *Exec) readLV(st *BState, p *PtrV, elem types.Type) SV {
	if p.LV == nil {
		return e.loadObj(st, p.Addr, elem)
	}
	lv := p.LV
	var root SV
	switch {
	case lv.Alloc != nil:
		root = st.cells[lv.Alloc]
		if root == nil {
			panic("read of uninitialised cell " + lv.Alloc.Comment)
		}
	case lv.Sl != nil:
		root = e.loadElem(st, lv.Sl, lv.Idx, lv.Sl.Ty.Underlying().(*types.Slice).Elem())
	case lv.Heap != nil:
		root = e.loadObj(st, lv.Heap, lv.HeapT)
	}
	return getPath(root, lv.Path)
}

func (e *Exec) writeLV(st *BState, p *PtrV, elem types.Type, v SV) {
	if p.LV == nil {
		e.storeObj(st, p.Addr, elem, v)
		return
	}
	lv := p.LV
	switch {
	case lv.Alloc != nil:
		a := lv.Alloc
		if len(lv.Path) == 0 {
			st.cells[a] = v
		} else {
			st.cells[a] = withField(st.cells[a], lv.Path, v)
		}
	case lv.Sl != nil:
		et := lv.Sl.Ty.Underlying().(*types.Slice).Elem()
		if len(lv.Path) == 0 {
			e.storeElem(st, lv.Sl, lv.Idx, et, v)
		} else {
			root := e.loadElem(st, lv.Sl, lv.Idx, et)
			e.storeElem(st, lv.Sl, lv.Idx, et, withField(root, lv.Path, v))
		}
	case lv.Heap != nil:
		if len(lv.Path) == 0 {
			e.storeObj(st, lv.Heap, lv.HeapT, v)
		} else {
			root := e.loadObj(st, lv.Heap, lv.HeapT)
			e.storeObj(st, lv.Heap, lv.HeapT, withField(root, lv.Path, v))
		}
	}
}


// ---------- constants ----------

func (e *Exec) constSV(c *ssa.Const) SV {
	t := c.Type()
	if c.Value == nil { // zero / nil
		return zeroValue(t)
	}
	switch u := t.Underlying().(type) {
	case *types.Basic:
		switch {
		case u.Info()&types.IsBoolean != 0:
			return &Scalar{T: boolLit(constant.BoolVal(c.Value)), Ty: t}
		case u.Info()&types.IsInteger != 0:
			s := c.Value.ExactString()
			if strings.HasPrefix(s, "-") {
				return &Scalar{T: bigLit("(- " + s[1:] + ")"), Ty: t}
			}
			return &Scalar{T: bigLit(s), Ty: t}
		case u.Info()&types.IsString != 0:
			return &Scalar{T: strLit(constant.StringVal(c.Value)), Ty: t}
		case u.Info()&types.IsFloat != 0:
			f, _ := constant.Float64Val(c.Value)
			return &Scalar{T: f64Lit(f), Ty: t}
		}
	}
	panic(fmt.Sprintf("const %s : %s", c, t))
}

// ---------- function execution ----------

var ghostTypes = map[string]types.Type{}
var epochCounter int

type loopInfo struct {
	header *ssa.BasicBlock
	body   map[*ssa.BasicBlock]bool
}

func findLoops(fn *ssa.Function) map[*ssa.BasicBlock]*loopInfo {
	loops := map[*ssa.BasicBlock]*loopInfo{}
	for _, b := range fn.Blocks {
		for _, s := range b.Succs {
			if s.Dominates(b) { // back edge b->s
				li := loops[s]
				if li == nil {
					li = &loopInfo{header: s, body: map[*ssa.BasicBlock]bool{s: true}}
					loops[s] = li
				}
				// natural loop: all nodes that reach b without passing s
				var stack []*ssa.BasicBlock
				if !li.body[b] {
					li.body[b] = true
					stack = append(stack, b)
				}
				for len(stack) > 0 {
					x := stack[len(stack)-1]
					stack = stack[:len(stack)-1]
					for _, p := range x.Preds {
						if !li.body[p] {
							li.body[p] = true
							stack = append(stack, p)
						}
					}
				}
			}
		}
	}
	return loops
}

func rpo(fn *ssa.Function) []*ssa.BasicBlock {
	seen := map[*ssa.BasicBlock]bool{}
	var post []*ssa.BasicBlock
	var dfs func(b *ssa.BasicBlock)
	dfs = func(b *ssa.BasicBlock) {
		seen[b] = true
		for _, s := range b.Succs {
			if !seen[s] {
				dfs(s)
			}
		}
		post = append(post, b)
	}
	dfs(fn.Blocks[0])
	for i, j := 0, len(post)-1; i < j; i, j = i+1, j-1 {
		post[i], post[j] = post[j], post[i]
	}
	return post
}

// run executes fn symbolically from state st with args; returns the merged return values and state.
func (e *Exec) run(fn *ssa.Function, st *BState, args []SV, bind []SV, depth int) ([]SV, *BState) {
	if len(fn.Blocks) == 0 {
		panic("no body: " + fn.String())
	}
	fr := &Frame{fn: fn, regs: map[ssa.Value]SV{}, depth: depth, bind: bind}
	for i, p := range fn.Params {
		fr.regs[p] = args[i]
	}
	for i, fv := range fn.FreeVars {
		fr.regs[fv] = bind[i]
	}
	loops := findLoops(fn)
	order := rpo(fn)
	entry := map[*ssa.BasicBlock]*BState{}
	exitSt := map[*ssa.BasicBlock]*BState{}
	edgeCond := map[[2]int]*Term{}
	entry[fn.Blocks[0]] = st
	for _, b := range order {
		var cur *BState
		if b == fn.Blocks[0] {
			cur = entry[b]
		} else {
			// merge predecessors (forward edges only)
			for _, p := range b.Preds {
				if li := loops[b]; li != nil && li.body[p] && p != b && b.Dominates(p) {
					continue // back edge
				}
				if b.Dominates(p) {
					continue
				}
				ps := exitSt[p]
				if ps == nil {
					continue
				}
				ec := edgeCond[[2]int{p.Index, b.Index}]
				if ec == nil {
					ec = tTrue
				}
				r := and(ps.reach, ec)
				if cur == nil {
					cur = ps.clone()
					cur.reach = r
				} else {
					cur = e.mergeStates(cur, ps, r)
				}
			}
			if cur == nil {
				continue // unreachable
			}
		}
		if li := loops[b]; li != nil {
			invs := e.loopInvs(fn, loops, li)
			for i, inv := range invs {
				env := e.specEnv(fr, cur, li)
				e.obligeNamed(cur, fmt.Sprintf("loop%d.inv%d.init", loopOrdinal(loops, li), i+1), b.Instrs[0].Pos(), scal(env.eval(inv)))
			}
			e.havocLoop(fr, cur, li)
			for _, inv := range invs {
				env := e.specEnv(fr, cur, li)
				e.assume(implies(cur.reach, scal(env.eval(inv))))
			}
		}
		e.execBlock(fr, b, cur, edgeCond)
		exitSt[b] = cur
		// back edges out of b: invariant preserved
		for _, s := range b.Succs {
			if li := loops[s]; li != nil && s.Dominates(b) {
				invs := e.loopInvs(fn, loops, li)
				ec := edgeCond[[2]int{b.Index, s.Index}]
				if ec == nil {
					ec = tTrue
				}
				bs := cur.clone()
				bs.reach = and(cur.reach, ec)
				for i, inv := range invs {
					env := e.specEnv(fr, bs, li)
					e.obligeNamed(bs, fmt.Sprintf("loop%d.inv%d.preserved", loopOrdinal(loops, li), i+1), token.NoPos, scal(env.eval(inv)))
				}
			}
		}
	}
	// merge returns
	if len(fr.returns) == 0 {
		ns := st.clone()
		ns.reach = tFalse
		return nil, ns
	}
	res := fr.returns[0]
	out := res.st.clone()
	out.reach = res.reach
	vals := res.vals
	for _, r := range fr.returns[1:] {
		nv := make([]SV, len(vals))
		for i := range vals {
			nv[i] = mergeSV(r.reach, r.vals[i], vals[i], fn.Signature.Results().At(i).Type())
		}
		vals = nv
		tmp := r.st.clone()
		out = e.mergeStates(out, tmp, r.reach)
	}
	return vals, out
}

// mergeStates: result = if r then b else a ; reach = a.reach or r
func (e *Exec) mergeStates(a, b *BState, r *Term) *BState {
	n := &BState{reach: or(a.reach, r), cells: map[*ssa.Alloc]SV{}, heap: map[string]*Term{}, ghost: map[string]SV{}, hepoch: map[string]int{}}
	for k, v := range a.hepoch {
		n.hepoch[k] = v
	}
	for k, v := range b.hepoch {
		if v > n.hepoch[k] {
			n.hepoch[k] = v
		}
	}
	for k, va := range a.ghost {
		if vb, ok := b.ghost[k]; ok {
			n.ghost[k] = mergeSV(r, vb, va, ghostTypes[k])
		} else {
			n.ghost[k] = va
		}
	}
	for k, vb := range b.ghost {
		if _, ok := a.ghost[k]; !ok {
			n.ghost[k] = vb
		}
	}
	for k, va := range a.cells {
		if vb, ok := b.cells[k]; ok {
			n.cells[k] = mergeSV(r, vb, va, k.Type().(*types.Pointer).Elem())
		} else {
			n.cells[k] = va
		}
	}
	for k, vb := range b.cells {
		if _, ok := a.cells[k]; !ok {
			n.cells[k] = vb
		}
	}
	keys := map[string]bool{}
	for k := range a.heap {
		keys[k] = true
	}
	for k := range b.heap {
		keys[k] = true
	}
	for k := range keys {
		ha, hb := a.heap[k], b.heap[k]
		if ha == nil {
			ha = e.heapArr(a, k, hb.Sort)
		}
		if hb == nil {
			hb = e.heapArr(b, k, ha.Sort)
		}
		n.heap[k] = ite(r, hb, ha)
	}
	return n
}

func (e *Exec) havocLoop(fr *Frame, st *BState, li *loopInfo) {
	assigned := map[*ssa.Alloc]bool{}
	heapWritten := false
	for b := range li.body {
		for _, ins := range b.Instrs {
			switch x := ins.(type) {
			case *ssa.Store:
				if a := rootAlloc(x.Addr); a != nil {
					assigned[a] = true
				} else {
					heapWritten = true
				}
			case *ssa.Call:
				if callMayWrite(&x.Call, map[*ssa.Function]bool{}) {
					heapWritten = true
				}
			case *ssa.MapUpdate, *ssa.Send:
				heapWritten = true
			}
		}
	}
	var names []string
	for a := range assigned {
		if _, ok := st.cells[a]; !ok {
			continue
		}
		names = append(names, a.Comment)
		old := st.cells[a]
		nv := e.freshSV(a.Type().(*types.Pointer).Elem(), "loop."+a.Comment, st.reach, false)
		st.cells[a] = nv
		if a.Comment == "rangeindex" {
			e.assume(le(intLit(-1), nv.(*Scalar).T))
		}
		_ = old
	}
	if heapWritten {
		for k, h := range st.heap {
			st.heap[k] = e.fresh("loopheap."+k, h.Sort)
		}
		epochCounter++
		st.hepoch[""] = epochCounter
	}
	sort.Strings(names)
	e.note(fmt.Sprintf("loop at block %d of %s cut with auto-invariant only (havoc: %s)", li.header.Index, fr.fn.Name(), strings.Join(names, ",")))
}

func rootAlloc(v ssa.Value) *ssa.Alloc {
	for {
		switch x := v.(type) {
		case *ssa.Alloc:
			if x.Heap {
				return nil
			}
			return x
		case *ssa.FieldAddr:
			v = x.X
		case *ssa.IndexAddr:
			// index into array cell only
			if _, ok := x.X.Type().Underlying().(*types.Pointer); ok {
				v = x.X
			} else {
				return nil
			}
		default:
			return nil
		}
	}
}


// callMayWrite is a conservative may-write-the-caller-visible-heap summary.
func callMayWrite(c *ssa.CallCommon, visiting map[*ssa.Function]bool) bool {
	if c.IsInvoke() {
		return c.Method.FullName() != "(github.com/cube2222/octosql/execution.Expression).Evaluate"
	}
	switch f := c.Value.(type) {
	case *ssa.Builtin:
		switch f.Name() {
		case "copy", "append", "delete":
			return true
		}
		return false
	case *ssa.Function:
		return funcMayWrite(f, visiting)
	case *ssa.MakeClosure:
		return funcMayWrite(f.Fn.(*ssa.Function), visiting)
	}
	return true
}

func funcMayWrite(f *ssa.Function, visiting map[*ssa.Function]bool) bool {
	if _, ok := externs[f.String()]; ok {
		return false
	}
	if len(f.Blocks) == 0 {
		return true
	}
	if visiting[f] {
		return false
	}
	visiting[f] = true
	for _, b := range f.Blocks {
		for _, ins := range b.Instrs {
			switch x := ins.(type) {
			case *ssa.Store:
				if rootAlloc(x.Addr) == nil && !freshInFunc(x.Addr) {
					return true
				}
			case *ssa.MapUpdate, *ssa.Send:
				return true
			case *ssa.Call:
				if callMayWrite(&x.Call, visiting) {
					return true
				}
			}
		}
	}
	return false
}

// freshInFunc: the address is (a field/element of) an object allocated by this very function.
func freshInFunc(v ssa.Value) bool {
	for {
		switch x := v.(type) {
		case *ssa.Alloc:
			return true
		case *ssa.FieldAddr:
			v = x.X
		case *ssa.IndexAddr:
			v = x.X
		case *ssa.MakeSlice:
			return true
		case *ssa.Slice:
			v = x.X
		default:
			return false
		}
	}
}

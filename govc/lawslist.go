package main

import (
	"fmt"
	"os"
	"time"

	"golang.org/x/tools/go/packages"
	"golang.org/x/tools/go/ssa"
	"golang.org/x/tools/go/ssa/ssautil"
)

const cmpContracts = `
//@ spec cmp(a Value, b Value) int
//@ func Value.Compare
//@   loop 1 invariant 0 <= i && i <= maxLen && forall(j, 0, i, j < len(value.List) && j < len(other.List) && cmp(value.List[j], other.List[j]) == 0)
//@   loop 2 invariant 0 <= i && i <= maxLen && forall(j, 0, i, j < len(value.Struct) && j < len(other.Struct) && cmp(value.Struct[j], other.Struct[j]) == 0)
//@   loop 3 invariant 0 <= i && i <= maxLen && forall(j, 0, i, j < len(value.Tuple) && j < len(other.Tuple) && cmp(value.Tuple[j], other.Tuple[j]) == 0)
`

// lawsListMain: Compare laws on the List arm: loop contract + induction hypothesis instantiated at the loop-exit indices.
func lawsListMain() {
	t0 := time.Now()
	cfg := &packages.Config{Mode: packages.LoadAllSyntax, Dir: "/repo", BuildFlags: []string{"-tags=verif"}}
	pkgs, err := packages.Load(cfg, "github.com/cube2222/octosql/octosql")
	if err != nil {
		panic(err)
	}
	prog, spkgs := ssautil.AllPackages(pkgs, ssa.NaiveForm|ssa.GlobalDebug|ssa.InstantiateGenerics)
	prog.Build()
	pkg := spkgs[0]
	valueT := pkg.Type("Value").Type()
	namedTypes["Value"] = valueT
	cmpFn := prog.LookupMethod(valueT, pkg.Pkg, "Compare")
	cs := parseContracts(cmpContracts)
	recursiveUF[cmpFn] = "cmp"
	fmt.Printf("loaded in %.1fs\n", time.Since(t0).Seconds())

	e := newExec("octosql.Value.Compare", prog.Fset)
	e.cs = cs
	e.pkg = pkg.Pkg
	e.contracts = map[*ssa.Function]*FuncContract{cmpFn: cs.Funcs["Value.Compare"]}
	st := newState()
	arm := int64(7)
	if len(os.Args) > 2 {
		fmt.Sscanf(os.Args[2], "%d", &arm)
	}
	mkVal := func(name string) *StructV {
		v := e.freshSV(valueT, name, tTrue, true).(*StructV)
		e.assume(eq(scal(v.Fields[0]), intLit(arm)))
		for _, fi := range []int{7, 8, 9} {
			sl := v.Fields[fi].(*SliceV)
			e.assume(and(le(intLit(0), sl.Len), le(sl.Len, sl.Cap), le(intLit(0), sl.Off), lt(intLit(0), sl.Base)))
		}
		return v
	}
	a, b, c := mkVal("a"), mkVal("b"), mkVal("c")
	field := int(arm) // List=7, Struct=8, Tuple=9 are also the field indexes of Value
	var iAlloc *ssa.Alloc
	type runRes struct {
		r, exit *Term
	}
	call := func(x, y *StructV) runRes {
		inlineStack = append(inlineStack, cmpFn)
		vals, out := e.run(cmpFn, st.clone(), []SV{x, y}, nil, 0)
		inlineStack = inlineStack[:len(inlineStack)-1]
		// A summary describes the terminating execution: the cut loop state is the iteration that leaves the
		// loop, so some return is reached (sound given the variant obligations, i.e. proven termination).
		e.assume(out.reach)
		// exit index: the loop variable i of the arm's loop in the merged return state
		var best *ssa.Alloc
		n := 0
		for al := range out.cells {
			if al.Comment == "i" && al.Parent() == cmpFn {
				n++
				_ = n
			}
		}
		// pick the i of the arm by order of declaration: loop (arm-6)
		var is []*ssa.Alloc
		for al := range out.cells {
			if al.Comment == "i" && al.Parent() == cmpFn {
				is = append(is, al)
			}
		}
		for k := 0; k < len(is); k++ {
			for l := k + 1; l < len(is); l++ {
				if is[l].Pos() < is[k].Pos() {
					is[k], is[l] = is[l], is[k]
				}
			}
		}
		best = is[arm-7]
		iAlloc = best
		return runRes{scal(vals[0]), scal(out.cells[best])}
	}
	ab, bc, ac, ba := call(a, b), call(b, c), call(a, c), call(b, a)
	_ = iAlloc
	fmt.Printf("4 expansions built in %.1fs; obligations inside Compare: %d\n", time.Since(t0).Seconds(), len(e.obls))
	// induction hypothesis: the laws on elements, instantiated at the exit indices
	elem := func(v *StructV, idx *Term) SV {
		return e.loadElem(st, v.Fields[field].(*SliceV), idx, valueT)
	}
	cmpT := func(x, y SV) *Term { return scal(e.applyUF("cmp", []SV{x, y}, prog.ImportedPackage("github.com/cube2222/octosql/octosql").Func("NewInt").Signature.Params().At(0).Type())) }
	_ = cmpT
	intT := cmpFn.Signature.Results().At(0).Type()
	cmpI := func(x, y SV) *Term { return scal(e.applyUF("cmp", []SV{x, y}, intT)) }
	var ih []*Term
	for _, idx := range []*Term{ab.exit, bc.exit, ac.exit, ba.exit} {
		x, y, z := elem(a, idx), elem(b, idx), elem(c, idx)
		for _, p := range [][2]SV{{x, y}, {y, z}, {x, z}, {y, x}} {
			t := cmpI(p[0], p[1])
			ih = append(ih, or(eq(t, intLit(-1)), eq(t, intLit(0)), eq(t, intLit(1))))
			ih = append(ih, eq(t, app(SInt, "-", cmpI(p[1], p[0]))))
		}
		xy, yz, xz := cmpI(x, y), cmpI(y, z), cmpI(x, z)
		ih = append(ih, implies(and(le(xy, intLit(0)), le(yz, intLit(0))), and(le(xz, intLit(0)), implies(eq(xz, intLit(0)), and(eq(xy, intLit(0)), eq(yz, intLit(0)))))))
	}
	assum := append(append([]*Term{}, e.assumes...), ih...)
	// first: the obligations generated inside Compare (invariants, bounds)
	counts := map[string]int{}
	for _, o := range e.obls {
		v, _, _, _ := solve(script(e.assumes[:o.NAssum], o.Cond, nil), 20)
		counts[v]++
		if v != "unsat" {
			fmt.Printf("  %-8s %s\n", v, o.Name)
			if os.Getenv("DUMP") != "" {
				os.WriteFile("/dev/shm/"+sanitize(o.Name)+".smt2", []byte(script(e.assumes[:o.NAssum], o.Cond, nil)), 0644)
			}
		}
	}
	fmt.Println("inside Compare:", counts)
	laws := []struct {
		name string
		goal *Term
	}{
		{"law.range", or(eq(ab.r, intLit(-1)), eq(ab.r, intLit(0)), eq(ab.r, intLit(1)))},
		{"law.antisymmetric", eq(ab.r, app(SInt, "-", ba.r))},
		{"law.transitive", implies(and(le(ab.r, intLit(0)), le(bc.r, intLit(0))), le(ac.r, intLit(0)))},
		{"canary(must be sat)", not(and(eq(ab.r, intLit(-1)), eq(bc.r, intLit(-1)), eq(ac.r, intLit(-1))))},
	}
	la := a.Fields[field].(*SliceV).Len
	lb := b.Fields[field].(*SliceV).Len
	lc := c.Fields[field].(*SliceV).Len
	watch := []*Term{ab.r, bc.r, ac.r, ba.r, ab.exit, bc.exit, ac.exit, ba.exit, la, lb, lc,
		cmpI(elem(a, ab.exit), elem(b, ab.exit)), cmpI(elem(b, ab.exit), elem(a, ab.exit)), cmpI(elem(b, ba.exit), elem(a, ba.exit)), cmpI(elem(a, ba.exit), elem(b, ba.exit))}
	for _, l := range laws {
		v, _, full, secs := solve(script(assum, l.goal, watch), 30)
		fmt.Printf("%-22s %-8s %.2fs\n", l.name, v, secs)
		if v == "sat" && os.Getenv("MODEL") != "" {
			fmt.Println(full)
		}
	}
}

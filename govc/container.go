package main

import (
	"go/token"
	"fmt"
	"go/ast"
	"go/types"
	"strings"

	"golang.org/x/tools/go/ssa"
)

// Spike container theory: zyedidia/generic hashmap with pointer values, keyed by the class of a []Value row.

const (
	keyMapHas = "C|hashmap|has"
	keyMapVal = "C|hashmap|val"
)

var sortArrIB = arrSort(SInt, SBool)
var sortArrII = arrSort(SInt, SInt)

func rowClass(sl *SliceV) *Term {
	return ufun("cls.row", []string{SInt, SInt, SInt}, SInt, sl.Base, sl.Off, sl.Len)
}

// valueClass: the key class of a single octosql.Value (same symbol as the btree theory uses for value-keyed items).
func valueClass(v SV) *Term {
	var ls []*Term
	leaves(v, &ls)
	var sorts []string
	for _, l := range ls {
		sorts = append(sorts, l.Sort)
	}
	return ufun("cls.value", sorts, SInt, ls...)
}

func mapKeyClass(k SV) *Term {
	if sl, ok := k.(*SliceV); ok {
		return rowClass(sl)
	}
	return valueClass(k)
}

const keyMapSize = "C|hashmap|size"

func (e *Exec) frontier(st *BState) *Term {
	if v, ok := st.ghost["$frontier"]; ok {
		return scal(v)
	}
	f := e.fresh("frontier0", SInt)
	e.assume(lt(intLit(0), f))
	st.ghost["$frontier"] = intSV(f)
	ghostTypes["$frontier"] = types.Typ[types.Int]
	return f
}

func (e *Exec) allocAddr(st *BState) *Term {
	f := e.frontier(st)
	st.ghost["$frontier"] = intSV(add(f, intLit(1)))
	return f
}

func isHashmapMethod(f *ssa.Function, name string) bool {
	s := f.String()
	return strings.HasPrefix(s, "(*github.com/zyedidia/generic/hashmap.Map[") && strings.Contains(s, "])."+name+"[")
}

func (e *Exec) containerCall(st *BState, x *ssa.Call, f *ssa.Function, args []SV) (SV, bool) {
	s := f.String()
	switch {
	case strings.HasPrefix(s, "github.com/zyedidia/generic/hashmap.New["):
		m := e.allocAddr(st)
		has := e.heapArr(st, keyMapHas, arrSort(SInt, sortArrIB))
		st.heap[keyMapHas] = sto(has, m, mk(sortArrIB, "((as const "+sortArrIB+") false)"))
		st.heap[keyMapSize] = sto(e.heapArr(st, keyMapSize, sortArrII), m, intLit(0))
		return &PtrV{Ty: x.Type(), Addr: m}, true
	case isHashmapMethod(f, "Size"):
		m := args[0].(*PtrV).Addr
		sz := sel(e.heapArr(st, keyMapSize, sortArrII), m, SInt)
		nbound++
		k := mk(SInt, fmt.Sprintf("k!q%d", nbound))
		hasK := sel(sel(e.heapArr(st, keyMapHas, arrSort(SInt, sortArrIB)), m, sortArrIB), k, SBool)
		e.assume(implies(st.reach, and(le(intLit(0), sz), le(sz, bigLit("MAX64")), eq(eq(sz, intLit(0)), mk(SBool, "forall", mk("binder", "(("+k.Op+" Int))"), not(hasK))))))
		return intSV(sz), true
	case isHashmapMethod(f, "Get"):
		m := args[0].(*PtrV).Addr
		c := mapKeyClass(args[1])
		has := sel(sel(e.heapArr(st, keyMapHas, arrSort(SInt, sortArrIB)), m, sortArrIB), c, SBool)
		val := sel(sel(e.heapArr(st, keyMapVal, arrSort(SInt, sortArrII)), m, sortArrII), c, SInt)
		tup := x.Type().(*types.Tuple)
		return &TupleV{Elems: []SV{&PtrV{Ty: tup.At(0).Type(), Addr: ite(has, val, intLit(0))}, boolSV(has)}}, true
	case isHashmapMethod(f, "Put"):
		m := args[0].(*PtrV).Addr
		c := mapKeyClass(args[1])
		hasA := e.heapArr(st, keyMapHas, arrSort(SInt, sortArrIB))
		valA := e.heapArr(st, keyMapVal, arrSort(SInt, sortArrII))
		szA := e.heapArr(st, keyMapSize, sortArrII)
		st.heap[keyMapSize] = sto(szA, m, add(sel(szA, m, SInt), ite(sel(sel(hasA, m, sortArrIB), c, SBool), intLit(0), intLit(1))))
		st.heap[keyMapHas] = sto(hasA, m, sto(sel(hasA, m, sortArrIB), c, tTrue))
		st.heap[keyMapVal] = sto(valA, m, sto(sel(valA, m, sortArrII), c, args[2].(*PtrV).Addr))
		return &TupleV{}, true
	case isHashmapMethod(f, "Remove"):
		m := args[0].(*PtrV).Addr
		c := mapKeyClass(args[1])
		hasA := e.heapArr(st, keyMapHas, arrSort(SInt, sortArrIB))
		szA := e.heapArr(st, keyMapSize, sortArrII)
		st.heap[keyMapSize] = sto(szA, m, sub(sel(szA, m, SInt), ite(sel(sel(hasA, m, sortArrIB), c, SBool), intLit(1), intLit(0))))
		st.heap[keyMapHas] = sto(hasA, m, sto(sel(hasA, m, sortArrIB), c, tFalse))
		return &TupleV{}, true
	}
	return nil, false
}

// ghost signed counts per row class for the record traces
func netKey(trace string) string { return "G|net|" + trace }

func (e *Exec) netUpdate(st *BState, trace string, rec SV) {
	r := rec.(*StructV)
	vals := r.Fields[0].(*SliceV)
	retr := scal(r.Fields[1])
	c := rowClass(vals)
	arr := e.heapArr(st, netKey(trace), sortArrII)
	st.heap[netKey(trace)] = sto(arr, c, add(sel(arr, c, SInt), ite(retr, intLit(-1), intLit(1))))
}

// spec-level container functions
func (env *SpecEnv) containerSpec(name string, n *ast.CallExpr) (SV, bool) {
	e, st := env.e, env.st
	switch name {
	case "forallK":
		vn := n.Args[0].(*ast.Ident).Name
		nbound++
		bv := mk(SInt, fmt.Sprintf("%s!q%d", vn, nbound))
		body := scal(env.with(vn, intSV(bv)).eval(n.Args[1]))
		return boolSV(mk(SBool, "forall", mk("binder", "(("+bv.Op+" Int))"), body)), true
	case "net":
		tr := n.Args[0].(*ast.Ident).Name
		k := scal(env.eval(n.Args[1]))
		return intSV(sel(e.heapArr(st, netKey(tr), sortArrII), k, SInt)), true
	case "has":
		m := env.eval(n.Args[0]).(*PtrV).Addr
		k := scal(env.eval(n.Args[1]))
		return boolSV(sel(sel(e.heapArr(st, keyMapHas, arrSort(SInt, sortArrIB)), m, sortArrIB), k, SBool)), true
	case "get":
		mp := env.eval(n.Args[0]).(*PtrV)
		k := scal(env.eval(n.Args[1]))
		// value type: pointer type argument V of Map[K,V]
		named := mp.Ty.Underlying().(*types.Pointer).Elem().(*types.Named)
		vt := named.TypeArgs().At(1)
		return &PtrV{Ty: vt, Addr: sel(sel(e.heapArr(st, keyMapVal, arrSort(SInt, sortArrII)), mp.Addr, sortArrII), k, SInt)}, true
	case "frontier":
		return intSV(e.frontier(st)), true
	case "addr":
		return intSV(env.eval(n.Args[0]).(*PtrV).Addr), true
	case "owner", "interior":
		// owner(p) / interior(p): the object a pointer into the interior of a heap object points into, and whether
		// p is such a pointer (read-through model of interiorOrigins)
		p := env.eval(n.Args[0]).(*PtrV)
		if p.Addr == nil {
			panic(name + "() of a static pointer")
		}
		pt := sanitize(typeKey(p.Ty.Underlying().(*types.Pointer).Elem()))
		if name == "owner" {
			return intSV(ufun("ptr.owner."+pt, []string{SInt}, SInt, p.Addr)), true
		}
		return boolSV(ufun("ptr.isint."+pt, []string{SInt}, SBool, p.Addr)), true
	case "cls":
		return intSV(mapKeyClass(env.eval(n.Args[0]))), true
	case "visited":
		// visited(k): the running Each has visited key class k
		return boolSV(sel(e.heapArr(st, keyEachVisited, sortArrIB), scal(env.eval(n.Args[0])), SBool)), true
	case "msize":
		return intSV(sel(e.heapArr(st, keyMapSize, sortArrII), env.eval(n.Args[0]).(*PtrV).Addr, SInt)), true
	}
	return nil, false
}


// assumeAllocated: every backing array / object referenced by an input value was allocated before now.
func (e *Exec) assumeAllocated(st *BState, t types.Type, sv SV, guard *Term) {
	var ls []*Term
	leaves(sv, &ls)
	f := e.frontier(st)
	i := 0
	build(t, "", func(path, sort string, _ types.Type) *Term {
		l := ls[i]
		i++
		if strings.HasSuffix(path, ".base") || strings.HasSuffix(path, ".addr") {
			e.assume(implies(guard, lt(l, f)))
		}
		return l
	})
}

const keyEachVisited = "G|each|visited"

// eachLoop desugars m.Each(callback) of the zyedidia hash map by its documented protocol: the callback is called
// once for every stored entry, in an unspecified order. The loop is cut like an Ascend (the contract's `ascend N
// invariant | step` clauses, numbered together with the function's Ascend calls); instead of an ascending bound the
// ghost visited(k) says which key classes have been visited; lastkey() is the class being visited. The loop is left
// when every stored class has been visited — or by a panic of the callback, which becomes a panic point of the
// enclosing function (the callback must not modify the map: not checked, listed).
func (e *Exec) eachLoop(fr *Frame, st *BState, x *ssa.Call, args []SV) SV {
	ascendCount[fr.fn]++
	ord := ascendCount[fr.fn]
	cf, mc := traceClosure(x.Call.Args[1])
	if cf == nil {
		panic("Each with a callback that is not a function literal")
	}
	t := args[0].(*PtrV).Addr
	aIB, aII := arrSort(SInt, sortArrIB), arrSort(SInt, sortArrII)
	hasAt := func(s *BState, c *Term) *Term { return sel(sel(e.heapArr(s, keyMapHas, aIB), t, sortArrIB), c, SBool) }
	valAt := func(s *BState, c *Term) *Term { return sel(sel(e.heapArr(s, keyMapVal, aII), t, sortArrII), c, SInt) }
	ct := e.contractOf(fr.fn)
	var invs, steps []Clause
	if ct != nil {
		invs = ct.AscendInv[ord]
		steps = ct.AscendStep[ord]
	}
	st.heap[keyEachVisited] = mk(sortArrIB, "((as const "+sortArrIB+") false)")
	for i, inv := range invs {
		env := e.specEnv(fr, st, nil)
		e.obligeNamed(st, fmt.Sprintf("ascend%d.%s.init", ord, clauseLabel(inv, "inv", i)), x.Pos(), scal(env.evalGoal(inv.Expr)))
	}
	// havoc what the callback may write
	e.havocCalleeFrame(st, st.clone(), cf, nil, "each", false)
	visited := e.fresh("each.visited", sortArrIB)
	st.heap[keyEachVisited] = visited
	nbound++
	k0 := mk(SInt, fmt.Sprintf("k!q%d", nbound))
	e.assume(implies(st.reach, mk(SBool, "forall", mk("binder", "(("+k0.Op+" Int))"), implies(sel(visited, k0, SBool), hasAt(st, k0)))))
	for _, inv := range invs {
		env := e.specEnv(fr, st, nil)
		e.assume(implies(st.reach, scal(env.eval(inv.Expr))))
	}
	head := st.clone()
	arm := e.fresh("each.arm", SInt)
	s := head.clone()
	s.reach = and(head.reach, eq(arm, intLit(0)))
	cur := e.fresh("each.cur", SInt)
	e.assume(implies(s.reach, and(hasAt(s, cur), not(sel(visited, cur, SBool)))))
	s.ghost["$btkey"] = intSV(cur)
	ghostTypes["$btkey"] = types.Typ[types.Int]
	key := e.freshSV(cf.Params[0].Type(), "each.key", s.reach, false)
	e.saneInput(s, cf.Params[0].Type(), key, s.reach)
	e.assumeAllocated(s, cf.Params[0].Type(), key, s.reach)
	e.assume(implies(s.reach, eq(mapKeyClass(key), cur)))
	val := &PtrV{Ty: cf.Params[1].Type(), Addr: valAt(s, cur)}
	var binds []SV
	if mc != nil {
		binds = closures[mc]
	}
	e.oldStack = append(e.oldStack, head)
	_, out := e.runInline(fr, cf, s, []SV{key, val}, binds)
	e.oldStack = e.oldStack[:len(e.oldStack)-1]
	fr.panics = append(fr.panics, e.escaped...)
	e.escaped = nil
	out.heap[keyEachVisited] = sto(visited, cur, tTrue)
	for i, sc := range steps {
		env := e.specEnv(fr, out, nil)
		env.oldSt = head
		env.bound["continues"] = boolSV(tTrue)
		e.obligeNamed(out, fmt.Sprintf("ascend%d.step.%s", ord, strings.TrimPrefix(clauseLabel(sc, "step", i)[len("step"):], ".")), token.NoPos, scal(env.evalGoal(sc.Expr)))
	}
	for _, sc := range steps {
		env := e.specEnv(fr, out, nil)
		env.oldSt = head
		env.bound["continues"] = boolSV(tTrue)
		e.assume(implies(out.reach, scal(env.eval(sc.Expr))))
	}
	for i, inv := range invs {
		env := e.specEnv(fr, out, nil)
		e.obligeNamed(out, fmt.Sprintf("ascend%d.%s.preserved", ord, clauseLabel(inv, "inv", i)), token.NoPos, scal(env.evalGoal(inv.Expr)))
	}
	// exit: every stored class has been visited
	es := head.clone()
	es.reach = and(head.reach, eq(arm, intLit(1)))
	nbound++
	k3 := mk(SInt, fmt.Sprintf("k!q%d", nbound))
	e.assume(implies(es.reach, mk(SBool, "forall", mk("binder", "(("+k3.Op+" Int))"), implies(hasAt(es, k3), sel(visited, k3, SBool)))))
	st.reach, st.cells, st.heap, st.ghost, st.hepoch = es.reach, es.cells, es.heap, es.ghost, es.hepoch
	e.note("hashmap.Each: every stored entry exactly once, unspecified order (library protocol assumed); the callback does not modify the map")
	if ct != nil {
		for i, xc := range ct.AscendExit[ord] {
			env := e.specEnv(fr, st, nil)
			e.obligeNamed(st, fmt.Sprintf("ascend%d.exit.%s", ord, strings.TrimPrefix(clauseLabel(xc, "exit", i)[len("exit"):], ".")), x.Pos(), scal(env.evalGoal(xc.Expr)))
		}
		for _, xc := range ct.AscendExit[ord] {
			env := e.specEnv(fr, st, nil)
			e.assume(implies(st.reach, scal(env.eval(xc.Expr))))
		}
	}
	return &TupleV{}
}

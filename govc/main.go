package main

import (
	"fmt"
	"go/ast"
	"go/token"
	"go/types"
	"os"
	"os/exec"
	"sort"
	"strconv"
	"strings"
	"sync"
	"time"

	"golang.org/x/tools/go/packages"
	"golang.org/x/tools/go/ssa"
	"golang.org/x/tools/go/ssa/ssautil"
)

type Descriptor struct {
	Name     string
	Index    int
	ArgTypes []int // TypeIDs, -1 = Any / unknown
	HasArgs  bool
	OutIDs   []int // nil = unknown
	Strict   bool
	Lit      *ast.FuncLit
	Fn       *ssa.Function
}

var typeIDByName = map[string]int{"Null": 0, "Int": 1, "Float": 2, "Boolean": 3, "String": 4, "Time": 5, "Duration": 6, "Any": -1}

func typeExprIDs(e ast.Expr) []int {
	switch x := e.(type) {
	case *ast.SelectorExpr:
		if id, ok := typeIDByName[x.Sel.Name]; ok {
			return []int{id}
		}
	case *ast.CallExpr:
		if s, ok := x.Fun.(*ast.SelectorExpr); ok && s.Sel.Name == "TypeSum" {
			var out []int
			for _, a := range x.Args {
				ids := typeExprIDs(a)
				if ids == nil {
					return nil
				}
				out = append(out, ids...)
			}
			return out
		}
	}
	return nil
}

func findDescriptors(pkg *packages.Package) []*Descriptor {
	var out []*Descriptor
	for _, f := range pkg.Syntax {
		for _, d := range f.Decls {
			fd, ok := d.(*ast.FuncDecl)
			if !ok || fd.Name.Name != "FunctionMap" {
				continue
			}
			ret := fd.Body.List[len(fd.Body.List)-1].(*ast.ReturnStmt)
			m := ret.Results[0].(*ast.CompositeLit)
			for _, el := range m.Elts {
				kv := el.(*ast.KeyValueExpr)
				name, _ := strconv.Unquote(kv.Key.(*ast.BasicLit).Value)
				details := kv.Value.(*ast.CompositeLit)
				for _, del := range details.Elts {
					dkv := del.(*ast.KeyValueExpr)
					if dkv.Key.(*ast.Ident).Name != "Descriptors" {
						continue
					}
					for i, de := range dkv.Value.(*ast.CompositeLit).Elts {
						desc := &Descriptor{Name: name, Index: i}
						for _, fe := range de.(*ast.CompositeLit).Elts {
							fkv := fe.(*ast.KeyValueExpr)
							switch fkv.Key.(*ast.Ident).Name {
							case "ArgumentTypes":
								desc.HasArgs = true
								for _, a := range fkv.Value.(*ast.CompositeLit).Elts {
									ids := typeExprIDs(a)
									if len(ids) == 1 {
										desc.ArgTypes = append(desc.ArgTypes, ids[0])
									} else {
										desc.ArgTypes = append(desc.ArgTypes, -1)
									}
								}
							case "OutputType":
								desc.OutIDs = typeExprIDs(fkv.Value)
							case "Strict":
								desc.Strict = fkv.Value.(*ast.Ident).Name == "true"
							case "Function":
								switch fv := fkv.Value.(type) {
								case *ast.FuncLit:
									desc.Lit = fv
								case *ast.CallExpr: // immediately invoked literal returning the function
									outer := fv.Fun.(*ast.FuncLit)
									for _, s := range outer.Body.List {
										if r, ok := s.(*ast.ReturnStmt); ok {
											desc.Lit = r.Results[0].(*ast.FuncLit)
										}
									}
								}
							}
						}
						out = append(out, desc)
					}
				}
			}
		}
	}
	return out
}

func allAnon(f *ssa.Function, out *[]*ssa.Function) {
	for _, a := range f.AnonFuncs {
		*out = append(*out, a)
		allAnon(a, out)
	}
}

type result struct {
	obl     *Obligation
	verdict string
	solver  string
	secs    float64
	model   string
}

func solve(script string, tmo int) (string, string, string, float64) {
	f, _ := os.CreateTemp("/dev/shm", "govc-*.smt2")
	f.WriteString(script)
	f.Close()
	defer os.Remove(f.Name())
	t0 := time.Now()
	out, _ := exec.Command("z3-new", fmt.Sprintf("-T:%d", tmo), f.Name()).CombinedOutput()
	s := string(out)
	first := strings.SplitN(strings.TrimSpace(s), "\n", 2)[0]
	return first, "z3-new", s, time.Since(t0).Seconds()
}

func main() {
	if len(os.Args) > 1 && os.Args[1] == "-trigger" {
		triggerMain()
		return
	}
	if len(os.Args) > 1 && os.Args[1] == "-nodes" {
		nodesMain()
		return
	}
	if len(os.Args) > 1 && os.Args[1] == "-andor" {
		andOrMain()
		return
	}
	if len(os.Args) > 1 && os.Args[1] == "-lawslist" {
		lawsListMain()
		return
	}
	if len(os.Args) > 1 && os.Args[1] == "-laws" {
		lawsMain()
		return
	}
	t0 := time.Now()
	cfg := &packages.Config{Mode: packages.LoadAllSyntax, Dir: "/repo", BuildFlags: []string{"-tags=verif"}}
	pkgs, err := packages.Load(cfg, "github.com/cube2222/octosql/functions")
	if err != nil {
		panic(err)
	}
	prog, spkgs := ssautil.AllPackages(pkgs, ssa.NaiveForm|ssa.GlobalDebug|ssa.InstantiateGenerics)
	prog.Build()
	fpkg := spkgs[0]
	fmt.Printf("loaded+built in %.1fs\n", time.Since(t0).Seconds())
	descs := findDescriptors(pkgs[0])
	var anon []*ssa.Function
	allAnon(fpkg.Func("FunctionMap"), &anon)
	bySyntax := map[ast.Node]*ssa.Function{}
	for _, a := range anon {
		bySyntax[a.Syntax()] = a
	}
	only := ""
	if len(os.Args) > 1 {
		only = os.Args[1]
	}
	var valueT types.Type
	type job struct {
		d    *Descriptor
		e    *Exec
		obls []*Obligation
		vals []*Term
		leafNames []string
		nargs int
	}
	var jobs []*job
	for _, d := range descs {
		d.Fn = bySyntax[d.Lit]
		if d.Fn == nil {
			fmt.Printf("UNBOUND %s[%d]\n", d.Name, d.Index)
			continue
		}
		if only != "" && d.Name != only {
			continue
		}
		valueT = d.Fn.Params[0].Type().Underlying().(*types.Slice).Elem()
		j := &job{d: d}
		func() {
			defer func() {
				if r := recover(); r != nil {
					fmt.Printf("SKIP %s[%d]: %v\n", d.Name, d.Index, r)
					j = nil
				}
			}()
			e := newExec(fmt.Sprintf("FunctionMap[%q][%d].Function", d.Name, d.Index), prog.Fset)
			j.e = e
			st := newState()
			values := e.freshSV(d.Fn.Params[0].Type(), "values", tTrue, true).(*SliceV)
			if d.HasArgs {
				e.assume(eq(values.Len, intLit(int64(len(d.ArgTypes)))))
			} else {
				e.assume(le(intLit(1), values.Len)) // TypeFn descriptors: arity unknown in spike
			}
			e.assume(le(values.Len, values.Cap))
			e.assume(lt(intLit(0), values.Base))
			n := len(d.ArgTypes)
			if !d.HasArgs {
				n = 2
			}
			j.nargs = n
			for i := 0; i < n; i++ {
				el := e.loadElem(st, values, intLit(int64(i)), valueT).(*StructV)
				var ls []*Term
				leaves(el, &ls)
				j.vals = append(j.vals, ls...)
				li := 0
				ai := i
				build(valueT, "", func(path, sort string, _ types.Type) *Term {
					j.leafNames = append(j.leafNames, fmt.Sprintf("rv!%d!%s", ai, path))
					li++
					return nil
				})
				tid := scal(el.Fields[0])
				guard := lt(intLit(int64(i)), values.Len)
				e.assume(implies(guard, and(le(intLit(0), tid), le(tid, intLit(9)))))
				if d.HasArgs && d.ArgTypes[i] >= 0 {
					e.assume(eq(tid, intLit(int64(d.ArgTypes[i]))))
				} else if d.Strict {
					e.assume(implies(guard, not(eq(tid, intLit(0)))))
				}
				// valid(): slice headers sane; int fields in range
				for _, fi := range []int{7, 8, 9} {
					sl := el.Fields[fi].(*SliceV)
					e.assume(implies(guard, and(le(intLit(0), sl.Len), le(sl.Len, sl.Cap), le(intLit(0), sl.Off), le(intLit(0), sl.Base))))
				}
				e.assume(and(le(bigLit("MIN64"), scal(el.Fields[1])), le(scal(el.Fields[1]), bigLit("MAX64"))))
				e.assume(and(le(bigLit("MIN64"), scal(el.Fields[6])), le(scal(el.Fields[6]), bigLit("MAX64"))))
			}
			vals, out := e.run(d.Fn, st, []SV{values}, nil, 0)
			if vals != nil && d.OutIDs != nil {
				res := vals[0].(*StructV)
				errv := vals[1].(*IfaceV)
				tid := scal(res.Fields[0])
				var alts []*Term
				anyOut := false
				for _, id := range d.OutIDs {
					if id < 0 {
						anyOut = true
					}
					alts = append(alts, eq(tid, intLit(int64(id))))
				}
				if !anyOut {
					e.oblige(out, "ensures.outtype", d.Lit.Pos(), implies(eq(errv.Tag, intLit(0)), or(alts...)))
				}
			}
			j.obls = e.obls
		}()
		if j != nil {
			jobs = append(jobs, j)
		}
	}
	fmt.Printf("generated in %.1fs: %d closures\n", time.Since(t0).Seconds(), len(jobs))
	type item struct {
		j *job
		o *Obligation
	}
	var items []item
	for _, j := range jobs {
		for _, o := range j.obls {
			items = append(items, item{j, o})
		}
	}
	jobOf := map[*Obligation]*job{}
	for _, it := range items {
		jobOf[it.o] = it.j
	}
	results := make([]result, len(items))
	scripts := make([]string, len(items))
	for i, it := range items { // term construction is not thread-safe: build scripts sequentially
		as := append([]*Term{}, it.j.e.assumes[:it.o.NAssum]...)
		var names []*Term
		for k, lt := range it.j.vals {
			c := mk(lt.Sort, it.j.leafNames[k])
			declareLocal(it.j.leafNames[k], lt.Sort)
			as = append(as, eq(c, lt))
			names = append(names, c)
		}
		scripts[i] = script(as, it.o.Cond, names)
	}
	var wg sync.WaitGroup
	sem := make(chan struct{}, 16)
	for i, it := range items {
		wg.Add(1)
		go func(i int, it item) {
			defer wg.Done()
			sem <- struct{}{}
			defer func() { <-sem }()
			v, s, full, secs := solve(scripts[i], 10)
			results[i] = result{obl: it.o, verdict: v, solver: s, secs: secs, model: full}
			if os.Getenv("DUMP") != "" && v != "unsat" {
				os.WriteFile("/dev/shm/"+sanitize(it.o.Name)+".smt2", []byte(scripts[i]), 0644)
			}
		}(i, it)
	}
	wg.Wait()
	counts := map[string]int{}
	var tot float64
	sort.SliceStable(results, func(a, b int) bool { return results[a].obl.Name < results[b].obl.Name })
	for _, r := range results {
		counts[r.verdict]++
		tot += r.secs
		if r.verdict != "unsat" {
			pos := prog.Fset.Position(r.obl.Pos)
			fmt.Printf("%-8s %-70s %s:%d  (%.2fs)\n", r.verdict, r.obl.Name, shortFile(pos), pos.Line, r.secs)
			if r.verdict == "sat" && os.Getenv("MODEL") != "" {
				fmt.Println(compactModel(r.model))
			}
			if r.verdict == "sat" && os.Getenv("REPLAY") != "" {
				j := jobOf[r.obl]
				idx := strings.Index(r.model, "\n")
				sxs := parseSx(r.model[idx+1:])
				vals := map[string]*sx{}
				if len(sxs) > 0 {
					for _, pair := range sxs[0].list {
						if len(pair.list) == 2 {
							vals[pair.list[0].atom] = pair.list[1]
						}
					}
				}
				verdict, _ := replayDescriptor(j.d, r.obl.Kind, j.nargs, vals, j.d.OutIDs)
				fmt.Printf("         %s\n", verdict)
			}
		}
	}
	fmt.Printf("obligations=%d %v solver_s=%.1f wall=%.1fs\n", len(results), counts, tot, time.Since(t0).Seconds())
	notes := map[string]int{}
	for _, j := range jobs {
		for n := range j.e.notes {
			notes[n]++
		}
	}
	var ns []string
	for n, c := range notes {
		ns = append(ns, fmt.Sprintf("%3d x %s", c, n))
	}
	sort.Strings(ns)
	for _, n := range ns {
		fmt.Println("note:", n)
	}
}

func types_NewPointer(t types.Type) types.Type { return types.NewPointer(t) }

func shortFile(p token.Position) string {
	i := strings.LastIndex(p.Filename, "/")
	return p.Filename[i+1:]
}

func compactModel(s string) string {
	lines := strings.Split(s, "\n")
	var out []string
	for _, l := range lines[1:] {
		l = strings.TrimSpace(l)
		if strings.Contains(l, "TypeID") || strings.Contains(l, ".Int") || strings.Contains(l, "len") || strings.Contains(l, "Str") {
			out = append(out, "    "+l)
		}
	}
	if len(out) > 14 {
		out = out[:14]
	}
	return strings.Join(out, "\n")
}

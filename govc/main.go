package main

import (
	"sync"
	"sync/atomic"
	"encoding/json"
	"flag"
	"fmt"
	"go/token"
	"os"
	"path/filepath"
	"sort"
	"strconv"
	"strings"
	"time"
)

func verifDir() string {
	if d := os.Getenv("GOVC_VERIF"); d != "" {
		return d
	}
	return "/verif"
}

type Item struct {
	G        *GenUnit
	O        *Obligation
	Script   string
	ScriptQF string
	ScriptSliced                []string
	ScriptInst                  string
	ScriptGround                string
	ScriptCases                 []string // the full script under a branch-discriminating atom and under its negation
	instAs                      []*Term // assumptions of the full script (the instantiated script is generated on demand)
	instOnce                    sync.Once
	ScriptLight, ScriptNoLocal string
	Res      SolveResult
	Status   string // discharged | known-finding | violation
	Finding  *Finding
	Replay   string // path of the replay file
	ReplayV  string // verdict line of the Go replay, if any
	ExclRes  *SolveResult
	Unit     string
	EngineErr string
}

func main() {
	if len(os.Args) < 2 {
		fmt.Fprintln(os.Stderr, "usage: govc check -prop Cxx [-tier quick|thorough] | govc list -prop Cxx")
		os.Exit(2)
	}
	switch os.Args[1] {
	case "check":
		os.Exit(checkMain(os.Args[2:]))
	default:
		fmt.Fprintln(os.Stderr, "unknown command", os.Args[1])
		os.Exit(2)
	}
}

func loadProps() (map[string]*PropSpec, error) {
	data, err := os.ReadFile(filepath.Join(verifDir(), "specs", "props.json"))
	if err != nil {
		return nil, err
	}
	m := map[string]*PropSpec{}
	if err := json.Unmarshal(data, &m); err != nil {
		return nil, fmt.Errorf("props.json: %v", err)
	}
	return m, nil
}

func checkMain(args []string) int {
	fs := flag.NewFlagSet("check", flag.ExitOnError)
	prop := fs.String("prop", "", "property id")
	tier := fs.String("tier", os.Getenv("VERIF_TIER"), "quick|thorough")
	verbose := fs.Bool("v", false, "print every obligation")
	only := fs.String("only", "", "substring filter on unit names (debugging; evidence is not written)")
	dump := fs.String("dump", "", "directory to dump failing SMT scripts into")
	genOnly := fs.Bool("gen-only", false, "generate the obligations, write every script into -dump, and stop (determinism self-test)")
	noEv := fs.Bool("noevidence", false, "do not write evidence or replay files into /verif (self-test runs against scratch trees)")
	fs.Parse(args)
	if *tier == "" {
		*tier = "quick"
	}
	seed := 0
	if s := os.Getenv("VERIF_SEED"); s != "" {
		seed, _ = strconv.Atoi(s)
	}
	t0 := time.Now()
	defer cleanupScratch()
	props, err := loadProps()
	if err != nil {
		fmt.Fprintln(os.Stderr, "govc:", err)
		return 2
	}
	ps := props[*prop]
	if ps == nil {
		fmt.Fprintf(os.Stderr, "govc: property %s has no units in specs/props.json\n", *prop)
		return 2
	}
	kf, err := loadFindings()
	if err != nil {
		fmt.Fprintln(os.Stderr, "govc:", err)
		return 2
	}
	w, err := loadWorld(ps.Packages)
	if err != nil {
		// the tree does not compile: nothing is decided
		fmt.Fprintln(os.Stderr, "govc: cannot load /repo:", err)
		return 2
	}
	tLoad := time.Since(t0).Seconds()
	// ---- generation (sequential: term construction is not thread-safe) ----
	var gens []*GenUnit
	for ui := range ps.Units {
		us := &ps.Units[ui]
		var gs []*GenUnit
		switch us.Kind {
		case "func":
			gs = []*GenUnit{w.genFuncUnit(us)}
		case "descriptors":
			gs = w.genDescriptors(us)
		case "lemma":
			gs = w.genLemmaUnits(us)
		default:
			fmt.Fprintln(os.Stderr, "govc: unknown unit kind", us.Kind)
			return 2
		}
		for _, g := range gs {
			g.Spec = us
			if *only != "" && !strings.Contains(g.Name, *only) {
				continue
			}
			gens = append(gens, g)
		}
	}
	var items []*Item
	explicit := 0
	trivial := 0
	for _, g := range gens {
		if g.Err != "" {
			items = append(items, &Item{G: g, Unit: g.Name, EngineErr: g.Err, O: &Obligation{Name: g.Name + "/engine", Kind: "engine"}})
			continue
		}
		for _, o := range g.E.obls {
			if !claimed(g.Spec, localName(o.Name)) {
				continue
			}
			if o.Explicit {
				explicit++
			}
			it := &Item{G: g, O: o, Unit: g.Name}
			as := g.E.assumes[:o.NAssum]
			if o.Assumps != nil {
				as = o.Assumps
			}
			prevN := -1
			for _, depth := range []int{1, 2, 0} {
				sl := sliceAssumptions(as, o.Cond, depth)
				if len(sl)*4 <= len(as)*3 && len(sl) != prevN {
					it.ScriptSliced = append(it.ScriptSliced, script(sl, o.Cond, nil))
					prevN = len(sl)
					if os.Getenv("GOVC_DEBUG_SLICE") != "" {
						fmt.Fprintf(os.Stderr, "slice(depth %d) %s: %d of %d assumptions\n", depth, o.Name, len(sl), len(as))
					}
				}
			}
			if !hasStrSort(o.Cond) {
				// theory slice: a goal without strings, under the assumptions without strings
				var ns []*Term
				for _, a := range as {
					if !hasStrSort(a) {
						ns = append(ns, a)
					}
				}
				if len(ns) < len(as) {
					it.ScriptSliced = append(it.ScriptSliced, script(ns, o.Cond, nil))
					sl := sliceAssumptions(ns, o.Cond, 1)
					if len(sl) < len(ns) && len(sl) != prevN {
						it.ScriptSliced = append(it.ScriptSliced, script(sl, o.Cond, nil))
					}
				}
			}
			if len(g.E.heavy) > 0 {
				var light []*Term
				dropped := 0
				for _, a := range as {
					if g.E.heavy[a] {
						dropped++
					} else {
						light = append(light, a)
					}
				}
				if dropped > 0 {
					it.ScriptLight = script(append(light, g.WatchAssumes...), o.Cond, nil)
				}
			}
			if len(o.Local) > 0 {
				// first without the goal-directed unfoldings of recursive spec functions (they are only needed when the
				// goal has to be established from the definition; otherwise they only slow the solvers down)
				it.ScriptNoLocal = script(append(append([]*Term{}, as...), g.WatchAssumes...), o.Cond, nil)
			}
			if len(g.WatchAssumes) > 0 || len(o.Local) > 0 {
				as = append(append(append([]*Term{}, as...), g.WatchAssumes...), o.Local...)
			}
			it.Script = script(as, o.Cond, append(g.E.inputTerms(), g.WatchNames...))
			it.instAs = as
			if a := splitAtom(o.Cond); a != nil {
				it.ScriptCases = []string{script(append(append([]*Term{}, as...), a), o.Cond, nil), script(append(append([]*Term{}, as...), not(a)), o.Cond, nil)}
			}
			// fallback query: the same goal under the quantifier-free assumptions only (fewer assumptions: an unsat
			// answer is still a proof; it keeps arithmetic goals out of the solvers' quantifier mode)
			nq := 0
			var qf []*Term
			for _, a := range as {
				if hasBound(a) {
					nq++
				} else {
					qf = append(qf, a)
				}
			}
			if nq > 0 && !hasBound(o.Cond) {
				it.ScriptQF = script(qf, o.Cond, nil)
			}
			items = append(items, it)
		}
		for _, tn := range g.E.trivial {
			if claimed(g.Spec, localName(tn)) {
				trivial++
				explicit++
			}
		}
	}
	tGen := time.Since(t0).Seconds() - tLoad
	secs := 10
	if *tier == "thorough" {
		secs = 60
	}
	if *genOnly {
		if *dump != "" {
			os.MkdirAll(*dump, 0755)
			for _, it := range items {
				if it.Script != "" {
					os.WriteFile(filepath.Join(*dump, sanitize(it.O.Name)+".smt2"), []byte(it.Script), 0644)
				}
				if os.Getenv("GOVC_DUMP_SLICES") != "" {
					for k, sc := range it.ScriptSliced {
						os.WriteFile(filepath.Join(*dump, fmt.Sprintf("%s.slice%d.smt2", sanitize(it.O.Name), k)), []byte(sc), 0644)
					}
					if sc := it.instScript(); sc != "" {
						os.WriteFile(filepath.Join(*dump, sanitize(it.O.Name)+".inst.smt2"), []byte(sc), 0644)
						os.WriteFile(filepath.Join(*dump, sanitize(it.O.Name)+".ground.smt2"), []byte(it.ScriptGround), 0644)
					}
				}
			}
		}
		fmt.Printf("%s generated units=%d obligations=%d explicit=%d\n", *prop, len(gens), len(items), explicit)
		return 0
	}
	// ---- solving ----
	parallel(len(items), 12, func(i int) {
		it := items[i]
		if it.EngineErr != "" {
			return
		}
		for _, sc := range it.ScriptSliced {
			r := solveQuick(sc, 3, seed)
			if r.Verdict == "unsat" {
				r.Solver += " (cone of influence)"
				it.Res = r
				return
			}
		}
		if sc := it.instScript(); sc != "" {
			if it.ScriptGround != "" {
				r := solveQuick(it.ScriptGround, 3, seed)
				if r.Verdict == "unsat" {
					r.Solver += " (skolemised goal, ground instances only)"
					it.Res = r
					return
				}
			}
			r := solveQuick(sc, 3, seed)
			if r.Verdict == "unsat" {
				r.Solver += " (skolemised goal, ground instances added)"
				it.Res = r
				return
			}
		}
		if it.ScriptLight != "" {
			r := solveQuick(it.ScriptLight, 3, seed)
			if r.Verdict == "unsat" {
				it.Res = r
				return
			}
		}
		if it.ScriptNoLocal != "" {
			r := solveQuick(it.ScriptNoLocal, 3, seed)
			if r.Verdict == "unsat" {
				it.Res = r
				return
			}
		}
		if len(it.ScriptCases) == 2 {
			r1 := solveQuick(it.ScriptCases[0], 5, seed)
			if r1.Verdict == "unsat" {
				r2 := solveQuick(it.ScriptCases[1], 5, seed)
				if r2.Verdict == "unsat" {
					r2.Solver += " (case split on a branch condition)"
					r2.Secs += r1.Secs
					it.Res = r2
					return
				}
			}
		}
		it.Res = solvePortfolio(it.Script, secs, seed)
		if it.Res.Verdict == "unknown" && atomic.LoadInt32(&undecided) >= 4 {
			// the check fails anyway (several obligations are already undecided after every retry): no long retries
			atomic.AddInt32(&undecided, 1)
			return
		}
		defer func() {
			if it.Res.Verdict == "unknown" {
				atomic.AddInt32(&undecided, 1)
			}
		}()
		if it.Res.Verdict == "unknown" {
			// undecided is not refuted: one more attempt with other solver seeds and twice the budget, so that solver
			// variance near the time limit does not turn into an alarm
			r := solvePortfolio(it.Script, 2*secs, seed+7)
			r.Secs += it.Res.Secs
			if r.Verdict != "unknown" {
				it.Res = r
			} else if it.ScriptLight != "" {
				r2 := solvePortfolio(it.ScriptLight, 2*secs, seed+7)
				if r2.Verdict == "unsat" {
					r2.Secs += r.Secs
					it.Res = r2
				}
			}
		}
		if it.Res.Verdict == "unknown" {
			// the sliced scripts again (fewer assumptions: unsat is still a proof), with the full budget and other seeds
			for _, sc := range it.ScriptSliced {
				r := solvePortfolio(sc, secs, seed+3)
				if r.Verdict == "unsat" {
					r.Solver += " (cone of influence)"
					r.Secs += it.Res.Secs
					it.Res = r
					break
				}
			}
		}
		if it.Res.Verdict == "unknown" && len(it.ScriptCases) == 2 {
			// case split on a branch condition: both cases must be unsat
			r1 := solvePortfolio(it.ScriptCases[0], 2*secs, seed)
			if r1.Verdict == "unsat" {
				r2 := solvePortfolio(it.ScriptCases[1], 2*secs, seed)
				if r2.Verdict == "unsat" {
					r2.Solver += " (case split on a branch condition)"
					r2.Secs += r1.Secs + it.Res.Secs
					it.Res = r2
				}
			}
		}
		if it.Res.Verdict == "unknown" && it.instScript() != "" && it.ScriptGround != "" {
			// the ground-instance script again with a larger budget (fewer assumptions: unsat is still a proof)
			for _, b := range []int{2 * secs, 6 * secs} {
				r := solvePortfolio(it.ScriptGround, b, seed+5)
				if r.Verdict == "unsat" {
					r.Solver += " (skolemised goal, ground instances only)"
					r.Secs += it.Res.Secs
					it.Res = r
					break
				}
			}
		}
		if it.Res.Verdict == "unknown" {
			// last attempt: four times the budget
			r := solvePortfolio(it.Script, 4*secs, seed+13)
			r.Secs += it.Res.Secs
			if r.Verdict != "unknown" {
				it.Res = r
			}
		}
		if it.Res.Verdict == "unknown" && it.ScriptQF != "" {
			r := solvePortfolio(it.ScriptQF, secs, seed)
			if r.Verdict == "unsat" {
				r.Solver += " (quantifier-free assumptions only)"
				r.Secs += it.Res.Secs
				it.Res = r
			}
		}
	})
	// ---- known findings: re-prove the failed obligation with the finding's input class excluded ----
	for _, it := range items {
		if it.EngineErr != "" {
			it.Status = "violation"
			continue
		}
		if it.Res.Verdict == "unsat" {
			it.Status = "discharged"
			continue
		}
		it.Status = "violation"
		fds := kf.match(*prop, it.O.Name)
		if len(fds) == 0 {
			continue
		}
		excl, err := it.G.classTerm(fds, it.O)
		if err != nil {
			fmt.Fprintf(os.Stderr, "govc: finding class for %s: %v\n", it.O.Name, err)
			continue
		}
		base := it.G.E.assumes[:it.O.NAssum]
		if it.O.Assumps != nil {
			base = it.O.Assumps
		}
		as := append(append(append([]*Term{}, base...), it.O.Local...), not(excl))
		r := solvePortfolio(script(as, it.O.Cond, nil), secs, seed)
		it.ExclRes = &r
		if r.Verdict == "unsat" {
			it.Status = "known-finding"
			it.Finding = fds[0]
		}
	}
	// ---- vacuity: every unit must have a reachable return under its assumptions ----
	vacuous := []string{}
	canaries := 0
	var canaryIdx []*GenUnit
	for _, g := range gens {
		if g.Err == "" && g.Canary != nil {
			canaryIdx = append(canaryIdx, g)
		}
	}
	canaryScripts := make([]string, len(canaryIdx))
	for i, g := range canaryIdx {
		canaryScripts[i] = script(g.E.assumes, not(g.Canary), nil)
	}
	if *dump != "" {
		os.MkdirAll(*dump, 0755)
		for i, g := range canaryIdx {
			os.WriteFile(filepath.Join(*dump, "canary_"+sanitize(g.Name)+".smt2"), []byte(canaryScripts[i]), 0644)
		}
	}
	canaryRes := make([]SolveResult, len(canaryIdx))
	parallel(len(canaryIdx), 12, func(i int) { canaryRes[i] = solvePortfolio(canaryScripts[i], 5, seed) })
	for i, g := range canaryIdx {
		canaries++
		if canaryRes[i].Verdict == "unsat" {
			vacuous = append(vacuous, g.Name)
		}
	}
	// ---- replay + report ----
	os.MkdirAll(filepath.Join(verifDir(), "replays"), 0755)
	violations := 0
	sort.SliceStable(items, func(a, b int) bool { return items[a].O.Name < items[b].O.Name })
	var lines []string
	knownPrinted := map[string]bool{}
	for _, it := range items {
		switch it.Status {
		case "violation":
			violations++
			it.writeReplay(w, *prop)
			suffix := ""
			if !strings.HasPrefix(it.ReplayV, "REPLAY: violated") {
				suffix = " no-failing-input-found"
			}
			lines = append(lines, fmt.Sprintf("VIOLATION property=%s replay=%s obligation=%s%s", *prop, it.Replay, it.O.Name, suffix))
		case "known-finding":
			key := it.Finding.What
			if !knownPrinted[key] {
				knownPrinted[key] = true
				lines = append(lines, fmt.Sprintf("KNOWN-FINDING: property=%s %s [%s]", *prop, it.Finding.What, it.O.Name))
			}
		}
		if *verbose || it.Status != "discharged" {
			pos := ""
			if it.O.Pos != token.NoPos {
				p := w.Prog.Fset.Position(it.O.Pos)
				pos = fmt.Sprintf(" %s:%d", filepath.Base(p.Filename), p.Line)
			}
			fmt.Fprintf(os.Stderr, "  %-14s %-8s %-9s %5.2fs %s%s %s\n", it.Status, it.Res.Verdict, it.Res.Solver, it.Res.Secs, it.O.Name, pos, it.EngineErr)
		}
		if *dump != "" && (it.Status != "discharged" || os.Getenv("GOVC_DUMP_ALL") != "") && it.Script != "" {
			os.MkdirAll(*dump, 0755)
			os.WriteFile(filepath.Join(*dump, sanitize(it.O.Name)+".smt2"), []byte(it.Script), 0644)
		}
	}
	machinery := []string{}
	if len(vacuous) > 0 {
		machinery = append(machinery, "vacuous preconditions (no return reachable) in: "+strings.Join(vacuous, ", "))
	}
	if explicit < ps.MinExplicit && *only == "" {
		// contract clauses that no longer bind to the code: obligations that used to be proved are not generated
		violations++
		rp := filepath.Join(verifDir(), "replays", *prop+"_binding.txt")
		os.WriteFile(rp, []byte(fmt.Sprintf("property %s: %d explicit obligations generated, %d pinned in specs/props.json.\nContract clauses no longer bind to the code (loop/stream ordinals, literals or return sites disappeared).\n", *prop, explicit, ps.MinExplicit)), 0644)
		lines = append(lines, fmt.Sprintf("VIOLATION property=%s replay=%s obligation=%s/binding no-failing-input-found", *prop, rp, *prop))
	}
	if len(items) == 0 {
		machinery = append(machinery, "no obligations generated")
	}
	solverErrors.Range(func(k, _ interface{}) bool {
		machinery = append(machinery, "solver rejected a generated script: "+k.(string))
		return true
	})
	wall := time.Since(t0).Seconds()
	if *only == "" && !*noEv {
		if err := writeEvidence(w, *prop, *tier, seed, ps, gens, items, explicit, trivial, canaries, vacuous, wall, tLoad, tGen, violations, kf); err != nil {
			machinery = append(machinery, "evidence: "+err.Error())
		}
	}
	for _, l := range lines {
		fmt.Println(l)
	}
	nd := 0
	for _, it := range items {
		if it.Status != "violation" {
			nd++
		}
	}
	fmt.Printf("%s tier=%s units=%d obligations=%d (explicit %d, trivially true %d) discharged=%d violations=%d load=%.1fs gen=%.1fs wall=%.1fs\n",
		*prop, *tier, len(gens), len(items), explicit, trivial, nd, violations, tLoad, tGen, wall)
	for _, m := range machinery {
		fmt.Fprintln(os.Stderr, "govc: MACHINERY ERROR:", m)
	}
	if violations > 0 {
		return 1
	}
	if len(machinery) > 0 {
		return 2
	}
	return 0
}

var termMu sync.Mutex

// undecided: obligations that stayed undecided after every retry in this run
var undecided int32

// instScript: the instantiated script (inst.go), generated on first use. Term construction is not concurrent, so
// generation during the parallel solving phase is serialised.
func (it *Item) instScript() string {
	it.instOnce.Do(func() {
		if it.instAs == nil || it.G == nil || it.G.Spec == nil || it.G.Spec.Kind == "lemma" {
			return
		}
		termMu.Lock()
		defer termMu.Unlock()
		// on the depth-1 cone of influence when that is substantially smaller, else on all assumptions
		as := it.instAs
		if sl := sliceAssumptions(as, it.O.Cond, 1); len(sl)*4 <= len(as)*3 {
			as = sl
		}
		it.ScriptInst = instantiatedScript(as, it.O.Cond)
		it.ScriptGround = groundScript(it.instAs, it.O.Cond)
	})
	return it.ScriptInst
}

func (w *World) genFuncUnit(us *UnitSpec) *GenUnit {
	sp, _ := w.pkgByName(us.Pkg)
	base := us.Pkg + "." + us.Sel
	if i := strings.LastIndex(us.Pkg, "/"); i >= 0 {
		base = us.Pkg[i+1:] + "." + us.Sel
	}
	if sp == nil {
		return &GenUnit{Name: base, Err: "package " + us.Pkg + " not loaded"}
	}
	fn, err := w.resolve(sp, us.Sel)
	if err != nil {
		return &GenUnit{Name: base, Err: err.Error()}
	}
	c := w.CS.forFunc(sp.Pkg, us.Sel)
	return w.genFunc(fn, c, base)
}

func (e *Exec) inputTerms() []*Term {
	var out []*Term
	seen := map[*Term]bool{}
	for _, t := range e.inputs {
		if !seen[t] {
			seen[t] = true
			out = append(out, t)
		}
	}
	return out
}

package main

import (
	"fmt"
	"os"
	"go/types"
	"strings"

	"golang.org/x/tools/go/ssa"
)

const maxInlineDepth = 4

func (e *Exec) call(fr *Frame, st *BState, x *ssa.Call) SV {
	c := x.Call
	resT := x.Type()
	havoc := func(why string) SV {
		e.note("abstracted call: " + why)
		if tup, ok := resT.(*types.Tuple); ok && tup.Len() == 0 {
			return &TupleV{}
		}
		return e.freshSV(resT, "call."+why, st.reach, false)
	}
	if c.IsInvoke() {
		if c.Method.FullName() == "(github.com/cube2222/octosql/execution.Expression).Evaluate" {
			recv := e.val(fr, c.Value)
			ctx := e.val(fr, c.Args[0])
			tup := x.Type().(*types.Tuple)
			val := e.applyUF("evalVal", []SV{recv, ctx}, tup.At(0).Type())
			er := e.applyUF("evalErr", []SV{recv, ctx}, tup.At(1).Type())
			return &TupleV{Elems: []SV{val, er}}
		}
		if c.Method.FullName() == nodeRunMethod {
			return e.streamRun(fr, st, x)
		}
		if c.Method.FullName() == "(error).Error" {
			return &Scalar{T: errMsg(e.val(fr, c.Value).(*IfaceV)), Ty: x.Type()}
		}
		if nm, ok := pureInvokes[c.Method.FullName()]; ok {
			iv := e.val(fr, c.Value).(*IfaceV)
			return &Scalar{T: ufun("ext."+nm, []string{SInt, SInt}, sortOfType(resT), iv.Tag, iv.Ref), Ty: resT}
		}
		if it, ok := dispatchable(c.Value.Type()); ok {
			if r, ok := e.dispatchInvoke(fr, st, x, it); ok {
				return r
			}
		}
		// ghost call counter per interface method name (calls(Name) in contracts)
		cn := "$calls." + c.Method.Name()
		old := intLit(0)
		if v, ok := st.ghost[cn]; ok {
			old = scal(v)
		}
		st.ghost[cn] = intSV(add(old, intLit(1)))
		ghostTypes[cn] = types.Typ[types.Int]
		// the receiver and the arguments of the most recent call of the method (lastrecv(Name), lastarg(Name, i))
		st.ghost["$lastrecv."+c.Method.Name()] = e.val(fr, c.Value)
		ghostTypes["$lastrecv."+c.Method.Name()] = c.Value.Type()
		for i, a := range c.Args {
			k := fmt.Sprintf("$lastarg.%s.%d", c.Method.Name(), i)
			st.ghost[k] = e.val(fr, a)
			ghostTypes[k] = a.Type()
		}
		r := havoc("invoke " + c.Method.FullName())
		if tt, isTuple := resT.(*types.Tuple); !isTuple {
			st.ghost["$lastres."+c.Method.Name()] = r
			ghostTypes["$lastres."+c.Method.Name()] = resT
		} else if tv, ok := r.(*TupleV); ok && tt.Len() > 0 && len(tv.Elems) == tt.Len() {
			// several results: lastres(Name) is the final one (the error, by Go convention)
			st.ghost["$lastres."+c.Method.Name()] = tv.Elems[tt.Len()-1]
			ghostTypes["$lastres."+c.Method.Name()] = tt.At(tt.Len() - 1).Type()
		}
		return r
	}
	var args []SV
	for _, a := range c.Args {
		args = append(args, e.val(fr, a))
	}
	switch f := c.Value.(type) {
	case *ssa.Builtin:
		return e.builtin(fr, st, x, f.Name(), args)
	case *ssa.Function:
		return e.callStatic(fr, st, x, f, args, nil)
	case *ssa.MakeClosure:
		return e.callStatic(fr, st, x, f.Fn.(*ssa.Function), args, closures[f])
	default:
		// function value: known closure?
		fv := e.val(fr, c.Value)
		if mc, ok := closureOf[fv]; ok {
			return e.callStatic(fr, st, x, mc.Fn.(*ssa.Function), args, closures[mc])
		}
		if sf, ok := staticFuncOf[fv]; ok {
			return e.callStatic(fr, st, x, sf, args, nil)
		}
		if r, ok := e.dynamicCall(st, x, args); ok {
			return r
		}
		return havoc("dynamic " + c.Value.Name())
	}
}

func (e *Exec) builtin(fr *Frame, st *BState, x *ssa.Call, name string, args []SV) SV {
	switch name {
	case "len":
		switch a := args[0].(type) {
		case *SliceV:
			return &Scalar{T: a.Len, Ty: x.Type()}
		case *Scalar:
			if a.T.Sort == SStr {
				return &Scalar{T: e.strLen(a.T), Ty: x.Type()}
			}
		}
	case "cap":
		if a, ok := args[0].(*SliceV); ok {
			return &Scalar{T: a.Cap, Ty: x.Type()}
		}
	case "recover":
		// the value of the panic being unwound (nil on normal exits); calling it stops the panic
		t := x.Type()
		if v, ok := st.ghost["$panicval"]; ok {
			st.ghost["$panicval"] = nilIface(t)
			st.ghost["$recovered"] = boolSV(tTrue)
			ghostTypes["$recovered"] = types.Typ[types.Bool]
			return v
		}
		return nilIface(t)
	case "ssa:deferstack":
		return &PtrV{Ty: x.Type(), Addr: intLit(0)}
	case "ssa:wrapnilchk":
		return args[0]
	case "append":
		// Go semantics: in place when the capacity suffices (the result aliases the argument's backing array),
		// otherwise a fresh backing array holding a's elements followed by b's; the new capacity is unspecified.
		a := args[0].(*SliceV)
		b, _ := args[1].(*SliceV)
		et := x.Type().Underlying().(*types.Slice).Elem()
		n := intLit(0)
		if b != nil {
			n = b.Len
		}
		newLen := add(a.Len, n)
		fits := le(newLen, a.Cap)
		nb := e.allocAddr(st)
		ncap := e.fresh("append.cap", SInt)
		e.assume(and(le(newLen, ncap), le(ncap, bigLit("MAX64"))))
		res := &SliceV{Ty: x.Type(), Base: ite(fits, a.Base, nb), Off: ite(fits, a.Off, intLit(0)), Len: newLen, Cap: ite(fits, a.Cap, ncap)}
		e.assume(implies(st.reach, le(newLen, bigLit("MAX64")))) // growslice never yields more than MaxInt elements
		cn, isConst := constIndex(n)
		build(et, "", func(path, sort string, _ types.Type) *Term {
			k := heapKey("A", et, path)
			arr := e.heapArr(st, k, arrSort(SInt, arrSort(SInt, sort)))
			src := sel(arr, a.Base, arrSort(SInt, sort))
			var bsrc *Term
			if b != nil {
				bsrc = sel(arr, b.Base, arrSort(SInt, sort))
			}
			// ni: the contents of the result's backing array. Stated uniformly for both cases (in place / fresh array)
			// so that reading the result needs no case split: its first len(a) elements are a's, then come b's.
			ni := e.fresh("append.arr"+path, arrSort(SInt, sort))
			nbound++
			j := mk(SInt, fmt.Sprintf("j!q%d", nbound))
			e.assume(mk(SBool, "forall", mk("binder", "(("+j.Op+" Int))"), implies(and(le(intLit(0), j), lt(j, a.Len)), eq(sel(ni, add(res.Off, j), sort), sel(src, add(a.Off, j), sort)))))
			if b != nil {
				if isConst {
					for q := 0; q < cn; q++ {
						e.assume(eq(sel(ni, add(add(res.Off, a.Len), intLit(int64(q))), sort), sel(bsrc, add(b.Off, intLit(int64(q))), sort)))
					}
				} else {
					nbound++
					q := mk(SInt, fmt.Sprintf("q!q%d", nbound))
					e.assume(mk(SBool, "forall", mk("binder", "(("+q.Op+" Int))"), implies(and(le(intLit(0), q), lt(q, n)), eq(sel(ni, add(add(res.Off, a.Len), q), sort), sel(bsrc, add(b.Off, q), sort)))))
				}
			}
			// in place: the rest of the shared backing array keeps its contents (other slices of it see the new elements)
			nbound++
			p := mk(SInt, fmt.Sprintf("p!q%d", nbound))
			lo := add(a.Off, a.Len)
			e.assume(implies(fits, mk(SBool, "forall", mk("binder", "(("+p.Op+" Int))"), implies(or(lt(p, lo), le(add(lo, n), p)), eq(sel(ni, p, sort), sel(src, p, sort))))))
			st.heap[k] = sto(arr, res.Base, ni)
			return nil
		})
		return res
	case "copy":
		// copy(dst, src): the first min(len(dst), len(src)) elements of src overwrite those of dst
		d, okd := args[0].(*SliceV)
		sArg, oks := args[1].(*SliceV)
		if !okd || !oks {
			e.note("copy from a string: contents not tracked")
			return e.freshSV(x.Type(), "copy", st.reach, false)
		}
		n := ite(le(d.Len, sArg.Len), d.Len, sArg.Len)
		et := args[0].(*SliceV).Ty.Underlying().(*types.Slice).Elem()
		build(et, "", func(path, sort string, _ types.Type) *Term {
			k := heapKey("A", et, path)
			arr := e.heapArr(st, k, arrSort(SInt, arrSort(SInt, sort)))
			old := sel(arr, d.Base, arrSort(SInt, sort))
			src := sel(arr, sArg.Base, arrSort(SInt, sort))
			na := e.fresh("copied"+path, arrSort(SInt, sort))
			nbound++
			p := mk(SInt, fmt.Sprintf("p!q%d", nbound))
			e.assume(mk(SBool, "forall", mk("binder", "(("+p.Op+" Int))"), eq(sel(na, p, sort),
				ite(and(le(d.Off, p), lt(p, add(d.Off, n))), sel(src, add(sArg.Off, sub(p, d.Off)), sort), sel(old, p, sort)))))
			st.heap[k] = sto(arr, d.Base, na)
			return nil
		})
		return &Scalar{T: n, Ty: x.Type()}
	}
	e.note("abstracted builtin " + name)
	if tup, ok := x.Type().(*types.Tuple); ok && tup.Len() == 0 {
		return &TupleV{}
	}
	return e.freshSV(x.Type(), "builtin."+name, st.reach, false)
}

func (e *Exec) callStatic(fr *Frame, st *BState, x *ssa.Call, f *ssa.Function, args []SV, bind []SV) SV {
	full := f.String()
	if isHashmapMethod(f, "Each") {
		return e.eachLoop(fr, st, x, args)
	}
	if r, ok := e.containerCall(st, x, f, args); ok {
		return r
	}
	if r, ok := e.btreeCall(fr, st, x, f, args); ok {
		return r
	}
	if ext, ok := externs[full]; ok {
		return ext(e, st, x, args)
	}
	if ct := e.contractOf(f); ct != nil && !ct.Flags["inline"] && e.expanding != f {
		return e.callByContract(fr, st, x, f, ct, args, bind)
	}
	if uf, ok := recursiveUF[f]; ok && recursive(fr, f) {
		// recursive call: the function's own spec function (induction hypothesis is supplied by the lemma)
		return e.applyUF(uf, args, x.Type())
	}
	inRepo := f.Pkg != nil && strings.HasPrefix(f.Pkg.Pkg.Path(), "github.com/cube2222/octosql")
	if (inRepo || f.Parent() != nil) && len(f.Blocks) > 0 && fr.depth < maxInlineDepth && !hasLoop(f) && !recursive(fr, f) {
		sub := st.clone()
		vals, out := e.runInline(fr, f, sub, args, bind)
		// explicit panics that left the callee are panic points of the caller
		fr.panics = append(fr.panics, e.escaped...)
		e.escaped = nil
		// continue in caller with callee's exit state
		st.cells = out.cells
		st.heap = out.heap
		st.ghost = out.ghost // allocation frontier, ghost traces
		st.hepoch = out.hepoch
		// paths where callee does not return (panics) are cut: reach narrows
		st.reach = out.reach
		switch len(vals) {
		case 0:
			return &TupleV{}
		case 1:
			return vals[0]
		}
		return &TupleV{Elems: vals}
	}
	e.note("abstracted call: " + full)
	if inRepo && len(f.Blocks) > 0 {
		// a module function that is neither inlined nor under contract: its frame is computed from its code
		e.havocCalleeFrame(st, st.clone(), f, args, selectorOf(f), false)
	} else {
		e.havocPointees(st, args, "call."+f.Name()+".")
		// a library function that is handed a function literal may call it any number of times: whatever the literal
		// may write, produce or invoke is havoc'd as for a call of the literal itself
		for i, a := range x.Call.Args {
			var cf *ssa.Function
			if mc, ok := a.(*ssa.MakeClosure); ok {
				cf, _ = mc.Fn.(*ssa.Function)
			} else if i < len(args) {
				if mc, ok := closureOf[args[i]]; ok {
					cf, _ = mc.Fn.(*ssa.Function)
				}
			}
			if cf != nil && len(cf.Blocks) > 0 {
				e.note("a library call is handed a function literal: the literal's frame is havoc'd")
				e.havocCalleeFrame(st, st.clone(), cf, nil, "callback of "+f.Name(), false)
			}
		}
	}
	if tup, ok := x.Type().(*types.Tuple); ok && tup.Len() == 0 {
		if !inRepo {
			for _, libName := range libNames(f) {
				cn := "$calls.lib" + libName
				old := intLit(0)
				if v, ok := st.ghost[cn]; ok {
					old = scal(v)
				}
				st.ghost[cn] = intSV(add(old, intLit(1)))
				ghostTypes[cn] = types.Typ[types.Int]
			}
		}
		return &TupleV{}
	}
	r := e.freshSV(x.Type(), "call."+f.Name(), st.reach, false)
	if !inRepo {
		// abstracted library functions are visible to contracts the way interface methods are, under the name
		// lib<Name>: calls(libFlush) counts them, lastres(libFlush) is the (final) result of the most recent one
		libName := libNames(f)[0] // instantiation of a generic function: Scan[*T] is Scan (and Scan_T for the counter)
		for _, ln := range libNames(f) {
			cn := "$calls.lib" + ln
			old := intLit(0)
			if v, ok := st.ghost[cn]; ok {
				old = scal(v)
			}
			st.ghost[cn] = intSV(add(old, intLit(1)))
			ghostTypes[cn] = types.Typ[types.Int]
		}
		if tup, ok := x.Type().(*types.Tuple); ok {
			if tv, ok := r.(*TupleV); ok && len(tv.Elems) == tup.Len() {
				st.ghost["$lastres.lib"+libName] = tv.Elems[tup.Len()-1]
				ghostTypes["$lastres.lib"+libName] = tup.At(tup.Len() - 1).Type()
			}
		} else {
			st.ghost["$lastres.lib"+libName] = r
			ghostTypes["$lastres.lib"+libName] = x.Type()
		}
	}
	return r
}

// libNames: the names under which an abstracted library call is visible to contracts: lib<Name>, and for an
// instantiation of a generic function also lib<Name>_<T> with T the (unqualified) first type argument
func libNames(f *ssa.Function) []string {
	n := f.Name()
	i := strings.Index(n, "[")
	if i < 0 {
		return []string{n}
	}
	base := n[:i]
	arg := strings.TrimSuffix(n[i+1:], "]")
	if j := strings.Index(arg, ","); j >= 0 {
		arg = arg[:j]
	}
	if j := strings.LastIndexAny(arg, "./*"); j >= 0 {
		arg = arg[j+1:]
	}
	out := []string{base}
	ok := arg != ""
	for _, r := range arg {
		if !(r == '_' || r >= 'a' && r <= 'z' || r >= 'A' && r <= 'Z' || r >= '0' && r <= '9') {
			ok = false
		}
	}
	if ok {
		out = append(out, base+"_"+arg)
	}
	return out
}

// havocPointees: a library function without a contract may write through the pointers it is given (json.Decode(&out),
// rows.Scan(&x), ...): everything reachable — by static type — from a pointer argument, directly or wrapped in an
// interface value, gets arbitrary contents. (Elements of slice arguments are assumed not to be modified.)
func (e *Exec) havocPointees(st *BState, args []SV, why string) {
	keys := map[string]bool{}
	for _, a := range args {
		switch v := a.(type) {
		case *PtrV:
			if v.LV != nil && v.LV.Alloc != nil {
				if _, ok := st.cells[v.LV.Alloc]; ok && len(v.LV.Path) == 0 {
					et := v.LV.Alloc.Type().(*types.Pointer).Elem()
					nv := e.freshSV(et, why+v.LV.Alloc.Comment, st.reach, false)
					e.saneInput(st, et, nv, tTrue)
					st.cells[v.LV.Alloc] = nv
					reachPrefixes(et, keys, map[string]bool{}, false)
				}
				continue
			}
			if pt, ok := v.Ty.Underlying().(*types.Pointer); ok {
				reachPrefixes(pt, keys, map[string]bool{}, true)
			}
		case *IfaceV:
			if mi := madeIface[v]; mi != nil {
				if pt, ok := mi.X.Type().Underlying().(*types.Pointer); ok {
					reachPrefixes(pt, keys, map[string]bool{}, true)
				}
			}
		}
	}
	if len(keys) == 0 {
		return
	}
	for _, k := range sortedHeapKeys(st.heap) {
		h := st.heap[k]
		for pre := range keys {
			if strings.HasPrefix(k, pre) {
				st.heap[k] = e.havocHeapKey(k, h, why)
				break
			}
		}
	}
	epochCounter++
	for pre := range keys {
		st.hepoch[pre] = epochCounter
	}
	e.note("a library call without a contract is given pointers: everything reachable from them (by type) is havoc'd")
}

// reachPrefixes collects the heap-key prefixes of the memory reachable from a value of type t: the pointee object of
// a pointer (top: t itself is the pointer handed over), the backing arrays of slices, recursively.
func reachPrefixes(t types.Type, out map[string]bool, seen map[string]bool, top bool) {
	tk := typeKey(t)
	if seen[tk] {
		return
	}
	seen[tk] = true
	if isTime(t) {
		return
	}
	switch u := t.Underlying().(type) {
	case *types.Pointer:
		if _, isStruct := u.Elem().Underlying().(*types.Struct); isStruct || top {
			out["H|"+typeKey(u.Elem())+"|"] = true
			reachPrefixes(u.Elem(), out, seen, false)
		}
	case *types.Slice:
		out["A|"+typeKey(u.Elem())+"|"] = true
		reachPrefixes(u.Elem(), out, seen, false)
	case *types.Struct:
		for i := 0; i < u.NumFields(); i++ {
			reachPrefixes(u.Field(i).Type(), out, seen, false)
		}
	case *types.Array:
		reachPrefixes(u.Elem(), out, seen, false)
	}
}

var inlineStack []*ssa.Function
var recursiveUF = map[*ssa.Function]string{}

func recursive(fr *Frame, f *ssa.Function) bool {
	for _, g := range inlineStack {
		if g == f {
			return true
		}
	}
	return false
}

func (e *Exec) runInline(fr *Frame, f *ssa.Function, st *BState, args []SV, bind []SV) ([]SV, *BState) {
	inlineStack = append(inlineStack, f)
	defer func() { inlineStack = inlineStack[:len(inlineStack)-1] }()
	return e.run(f, st, args, bind, fr.depth+1)
}

func hasLoop(f *ssa.Function) bool {
	return len(findLoops(f)) > 0
}

// ---------- extern table (spike subset) ----------

type externFn func(e *Exec, st *BState, x *ssa.Call, args []SV) SV

var externs = map[string]externFn{}

func strFn(name string, nargs int) externFn {
	return func(e *Exec, st *BState, x *ssa.Call, args []SV) SV {
		var ts []*Term
		var sorts []string
		for _, a := range args {
			ts = append(ts, scal(a))
			sorts = append(sorts, scal(a).Sort)
		}
		return &Scalar{T: ufun("ext."+name, sorts, sortOfType(x.Type()), ts...), Ty: x.Type()}
	}
}

func init() {
	for _, n := range []string{"strings.ToUpper", "strings.ToLower"} {
		externs[n] = strFn(n, 1)
	}
	externs["strings.Replace"] = strFn("strings.Replace", 4)
	externs["strings.Index"] = func(e *Exec, st *BState, x *ssa.Call, args []SV) SV {
		s, sub := scal(args[0]), scal(args[1])
		r := ufun("ext.strings.Index", []string{SStr, SStr}, SInt, s, sub)
		e.assume(and(le(intLit(-1), r), le(r, e.strLen(s))))
		return &Scalar{T: r, Ty: x.Type()}
	}
	externs["strings.Repeat"] = func(e *Exec, st *BState, x *ssa.Call, args []SV) SV {
		s, n := scal(args[0]), scal(args[1])
		e.oblige(st, "nopanic.extern.strings.Repeat", x.Pos(), le(intLit(0), n))
		// overflow panic: len(s)*n must fit
		e.oblige(st, "nopanic.extern.strings.Repeat.overflow", x.Pos(), le(app(SInt, "*", app(SInt, "str.len", s), n), bigLit("MAX64")))
		r := ufun("ext.strings.Repeat", []string{SStr, SInt}, SStr, s, n)
		return &Scalar{T: r, Ty: x.Type()}
	}
	for _, n := range []string{"math.Log", "math.Log2", "math.Log10", "math.Pow", "math.Sqrt", "math.Abs", "math.Ceil", "math.Floor"} {
		name := n
		externs[name] = func(e *Exec, st *BState, x *ssa.Call, args []SV) SV {
			var ts []*Term
			var sorts []string
			for _, a := range args {
				ts = append(ts, scal(a))
				sorts = append(sorts, SF64)
			}
			switch name {
			case "math.Abs":
				return &Scalar{T: app(SF64, "fp.abs", ts[0]), Ty: x.Type()}
			case "math.Sqrt":
				return &Scalar{T: app(SF64, "fp.sqrt", mk("RoundingMode", "RNE"), ts[0]), Ty: x.Type()}
			case "math.Floor":
				return &Scalar{T: app(SF64, "fp.roundToIntegral", mk("RoundingMode", "RTN"), ts[0]), Ty: x.Type()}
			case "math.Ceil":
				return &Scalar{T: app(SF64, "fp.roundToIntegral", mk("RoundingMode", "RTP"), ts[0]), Ty: x.Type()}
			}
			return &Scalar{T: ufun("ext."+name, sorts, SF64, ts...), Ty: x.Type()}
		}
	}
	externs["math.Modf"] = func(e *Exec, st *BState, x *ssa.Call, args []SV) SV {
		return e.freshSV(x.Type(), "modf", st.reach, false)
	}
	pure := func(name string) {
		externs[name] = func(e *Exec, st *BState, x *ssa.Call, args []SV) SV {
			if tup, ok := x.Type().(*types.Tuple); ok && tup.Len() == 0 {
				return &TupleV{}
			}
			return e.freshSV(x.Type(), "ext."+name, st.reach, false)
		}
	}
	externs["strconv.ParseInt"] = func(e *Exec, st *BState, x *ssa.Call, args []SV) SV {
		s := scal(args[0])
		tup := x.Type().(*types.Tuple)
		ok := ufun("ext.strconv.ParseInt.ok", []string{SStr}, SBool, s)
		v := ufun("ext.strconv.ParseInt.val", []string{SStr}, SInt, s)
		e.assume(and(le(bigLit("MIN64"), v), le(v, bigLit("MAX64"))))
		er := e.freshSV(tup.At(1).Type(), "parse.err", st.reach, false).(*IfaceV)
		e.assume(eq(eq(er.Tag, intLit(0)), ok))
		return &TupleV{Elems: []SV{&Scalar{T: v, Ty: tup.At(0).Type()}, er}}
	}
	externs["strconv.ParseFloat"] = func(e *Exec, st *BState, x *ssa.Call, args []SV) SV {
		s := scal(args[0])
		tup := x.Type().(*types.Tuple)
		ok := ufun("ext.strconv.ParseFloat.ok", []string{SStr}, SBool, s)
		v := ufun("ext.strconv.ParseFloat.val", []string{SStr}, SF64, s)
		er := e.freshSV(tup.At(1).Type(), "parse.err", st.reach, false).(*IfaceV)
		e.assume(eq(eq(er.Tag, intLit(0)), ok))
		return &TupleV{Elems: []SV{&Scalar{T: v, Ty: tup.At(0).Type()}, er}}
	}
	for _, n := range []string{"time.Parse", "log.Printf",
		"fmt.Sprint", "(time.Duration).String", "time.ParseDuration"} {
		pure(n)
	}
	// error-message model: fmt.Errorf returns a fresh non-nil error whose message is sprintf(format, args) and
	// contains the message of every error argument (%w / %v / %s); fmt.Sprintf is the same sprintf.
	externs["fmt.Errorf"] = func(e *Exec, st *BState, x *ssa.Call, args []SV) SV {
		r := e.freshSV(x.Type(), "errorf", st.reach, false).(*IfaceV)
		e.assume(not(eq(r.Tag, intLit(0))))
		msg, errArgs := e.sprintfTerm(e.curFrame, st, x, args)
		if msg != nil {
			e.assume(implies(st.reach, eq(errMsg(r), msg)))
		}
		for _, ea := range errArgs {
			e.assume(implies(and(st.reach, not(eq(ea.Tag, intLit(0)))), app(SBool, "str.contains", errMsg(r), errMsg(ea))))
		}
		return r
	}
	// github.com/pkg/errors: Wrap / Wrapf / WithStack / WithMessage return nil exactly for a nil error (documented)
	for _, n := range []string{"Wrap", "Wrapf", "WithStack", "WithMessage", "WithMessagef"} {
		externs["github.com/pkg/errors."+n] = func(e *Exec, st *BState, x *ssa.Call, args []SV) SV {
			r := e.freshSV(x.Type(), "errwrap", st.reach, false).(*IfaceV)
			in := args[0].(*IfaceV)
			e.assume(implies(st.reach, eq(eq(r.Tag, intLit(0)), eq(in.Tag, intLit(0)))))
			return r
		}
	}
	externs["fmt.Sprintf"] = func(e *Exec, st *BState, x *ssa.Call, args []SV) SV {
		msg, _ := e.sprintfTerm(e.curFrame, st, x, args)
		if msg == nil {
			return e.freshSV(x.Type(), "sprintf", st.reach, false)
		}
		return &Scalar{T: msg, Ty: x.Type()}
	}
	externs["strings.Contains"] = func(e *Exec, st *BState, x *ssa.Call, args []SV) SV {
		return &Scalar{T: app(SBool, "str.contains", scal(args[0]), scal(args[1])), Ty: x.Type()}
	}
	externs["strings.HasPrefix"] = func(e *Exec, st *BState, x *ssa.Call, args []SV) SV {
		return &Scalar{T: app(SBool, "str.prefixof", scal(args[1]), scal(args[0])), Ty: x.Type()}
	}
	externs["strings.HasSuffix"] = func(e *Exec, st *BState, x *ssa.Call, args []SV) SV {
		return &Scalar{T: app(SBool, "str.suffixof", scal(args[1]), scal(args[0])), Ty: x.Type()}
	}
	externs["github.com/segmentio/fasthash/fnv1a.AddUint64"] = func(e *Exec, st *BState, x *ssa.Call, args []SV) SV {
		return &Scalar{T: ufun("ext.fnv1a.AddUint64", []string{SInt, SInt}, SInt, scal(args[0]), scal(args[1])), Ty: x.Type()}
	}
	externs["github.com/segmentio/fasthash/fnv1a.AddString64"] = func(e *Exec, st *BState, x *ssa.Call, args []SV) SV {
		return &Scalar{T: ufun("ext.fnv1a.AddString64", []string{SInt, SStr}, SInt, scal(args[0]), scal(args[1])), Ty: x.Type()}
	}
	externs["math.Float64bits"] = func(e *Exec, st *BState, x *ssa.Call, args []SV) SV {
		f := scal(args[0])
		// bits(f) as an Int in [0, 2^64): injective on non-NaN floats, and ±0 differ
		r := ufun("ext.math.Float64bits", []string{SF64}, SInt, f)
		return &Scalar{T: r, Ty: x.Type()}
	}
	// ristretto cache used as a memo table: the data-structure invariant "every stored value has dynamic type
	// cachetag(c)" is established by NewCache (empty), preserved by Set (obligation) and used by Get.
	cacheTag := func(c SV) *Term {
		return ufun("ghost.cachetag", []string{SInt}, SInt, c.(*PtrV).Addr)
	}
	// regular expressions: a compiled *regexp.Regexp is an immutable box of its source pattern (ext.regexp.pat), and
	// matching is an uninterpreted predicate of (pattern, subject) — Go's regexp engine is trusted (C12).
	rxPat := func(r *Term) *Term { return ufun("ext.regexp.pat", []string{SInt}, SStr, r) }
	externs["regexp.Compile"] = func(e *Exec, st *BState, x *ssa.Call, args []SV) SV {
		tup := x.Type().(*types.Tuple)
		r := e.allocAddr(st)
		e.assume(eq(rxPat(r), scal(args[0])))
		er := e.freshSV(tup.At(1).Type(), "regexp.Compile.err", st.reach, false).(*IfaceV)
		return &TupleV{Elems: []SV{&PtrV{Ty: tup.At(0).Type(), Addr: ite(eq(er.Tag, intLit(0)), r, intLit(0))}, er}}
	}
	externs["(*regexp.Regexp).MatchString"] = func(e *Exec, st *BState, x *ssa.Call, args []SV) SV {
		return &Scalar{T: ufun("ext.regexp.match", []string{SStr, SStr}, SBool, rxPat(args[0].(*PtrV).Addr), scal(args[1])), Ty: x.Type()}
	}
	externs["(*github.com/dgraph-io/ristretto.Cache).Get"] = func(e *Exec, st *BState, x *ssa.Call, args []SV) SV {
		ok := e.fresh("cache.ok", SBool)
		tup := x.Type().(*types.Tuple)
		v := e.freshSV(tup.At(0).Type(), "cache.val", st.reach, false).(*IfaceV)
		e.assume(implies(ok, eq(v.Tag, cacheTag(args[0]))))
		e.assume(and(le(intLit(0), v.Ref), lt(v.Ref, e.frontier(st))))
		// memo-table coherence (rely): a regexp found under a string key was compiled from that key — guaranteed by
		// the obligation at every Set of the same table (cache.coherent)
		if ks := boxedString(e, x.Call.Args[1]); ks != nil {
			e.assume(implies(and(ok, eq(v.Tag, e.typeID(regexpPtrType(x)))), eq(rxPat(v.Ref), ks)))
		}
		return &TupleV{Elems: []SV{v, boolSV(ok)}}
	}
	externs["(*github.com/dgraph-io/ristretto.Cache).Set"] = func(e *Exec, st *BState, x *ssa.Call, args []SV) SV {
		e.oblige(st, "nopanic.extern.cache.valuetype", x.Pos(), eq(args[2].(*IfaceV).Tag, cacheTag(args[0])))
		if ks := boxedString(e, x.Call.Args[1]); ks != nil {
			iv := args[2].(*IfaceV)
			e.oblige(st, "cache.coherent", x.Pos(), implies(eq(iv.Tag, e.typeID(regexpPtrType(x))), eq(rxPat(iv.Ref), ks)))
		}
		return boolSV(e.fresh("cache.set", SBool))
	}
	// bufio.Scanner: Scan advances a ghost token counter; Text/Bytes/Err are functions of (scanner, tokens read so far)
	scanCount := func(st *BState) *Term {
		if v, ok := st.ghost["$scans"]; ok {
			return scal(v)
		}
		return intLit(0)
	}
	externs["(*bufio.Scanner).Scan"] = func(e *Exec, st *BState, x *ssa.Call, args []SV) SV {
		n := add(scanCount(st), intLit(1))
		st.ghost["$scans"] = intSV(n)
		ghostTypes["$scans"] = types.Typ[types.Int]
		return boolSV(ufun("ext.bufio.Scanner.Scan", []string{SInt, SInt}, SBool, args[0].(*PtrV).Addr, n))
	}
	externs["(*bufio.Scanner).Text"] = func(e *Exec, st *BState, x *ssa.Call, args []SV) SV {
		return &Scalar{T: ufun("ext.bufio.Scanner.Text", []string{SInt, SInt}, SStr, args[0].(*PtrV).Addr, scanCount(st)), Ty: x.Type()}
	}
	externs["(*bufio.Scanner).Err"] = func(e *Exec, st *BState, x *ssa.Call, args []SV) SV {
		a, n := args[0].(*PtrV).Addr, scanCount(st)
		return &IfaceV{Ty: x.Type(), Tag: ufun("ext.bufio.Scanner.Err.tag", []string{SInt, SInt}, SInt, a, n), Ref: ufun("ext.bufio.Scanner.Err.ref", []string{SInt, SInt}, SInt, a, n)}
	}
	externs["(*bufio.Scanner).Split"] = func(e *Exec, st *BState, x *ssa.Call, args []SV) SV { return &TupleV{} }
	externs["(*bufio.Scanner).Buffer"] = func(e *Exec, st *BState, x *ssa.Call, args []SV) SV { return &TupleV{} }
	// bytes.Index(data, []byte(sep)): the first occurrence, as an uninterpreted function of the data slice and the
	// separator string (the []byte conversion is traced back to its string)
	externs["bytes.Index"] = func(e *Exec, st *BState, x *ssa.Call, args []SV) SV {
		d := args[0].(*SliceV)
		sp := args[1].(*SliceV)
		sepStr, ok := byteSliceOf[sp.Base]
		if !ok {
			return e.freshSV(x.Type(), "bytes.Index", st.reach, false)
		}
		r := ufun("ext.bytes.Index", []string{SInt, SInt, SInt, SStr}, SInt, d.Base, d.Off, d.Len, sepStr)
		e.assume(or(eq(r, intLit(-1)), and(le(intLit(0), r), le(add(r, e.strLen(sepStr)), d.Len))))
		return &Scalar{T: r, Ty: x.Type()}
	}
	// sort.Slice(s, less): the elements of s are permuted in place (a bijection on the indices; which one is not
	// specified here — the order it establishes is a property of `less`, not modelled)
	externs["sort.Slice"] = func(e *Exec, st *BState, x *ssa.Call, args []SV) SV {
		iv, ok := args[0].(*IfaceV)
		var mi *ssa.MakeInterface
		if ok {
			mi = madeIface[iv]
		}
		if mi == nil {
			panic("sort.Slice of a value whose slice is not statically known")
		}
		sl := e.val(e.curFrame, mi.X).(*SliceV)
		et := mi.X.Type().Underlying().(*types.Slice).Elem()
		nfreshGlobal++
		sig := fmt.Sprintf("sort.perm!%d", nfreshGlobal)
		tau := fmt.Sprintf("sort.inv!%d", nfreshGlobal)
		declare(sig, fmt.Sprintf("(declare-fun %s (Int) Int)", sig))
		declare(tau, fmt.Sprintf("(declare-fun %s (Int) Int)", tau))
		nbound++
		j := mk(SInt, fmt.Sprintf("j!q%d", nbound))
		inR := func(t *Term) *Term { return and(le(intLit(0), t), lt(t, sl.Len)) }
		sj := mk(SInt, sig, j)
		tj := mk(SInt, tau, j)
		e.assumeHeavy(mk(SBool, "forall", mk("binder", "(("+j.Op+" Int))"), implies(inR(j), and(inR(sj), inR(tj), eq(mk(SInt, sig, tj), j), eq(mk(SInt, tau, sj), j)))))
		build(et, "", func(path, sort string, _ types.Type) *Term {
			k := heapKey("A", et, path)
			arr := e.heapArr(st, k, arrSort(SInt, arrSort(SInt, sort)))
			old := sel(arr, sl.Base, arrSort(SInt, sort))
			na := e.fresh("sorted"+path, arrSort(SInt, sort))
			nbound++
			q := mk(SInt, fmt.Sprintf("q!q%d", nbound))
			inRq := and(le(intLit(0), q), lt(q, sl.Len))
			e.assumeHeavy(mk(SBool, "forall", mk("binder", "(("+q.Op+" Int))"), eq(sel(na, add(sl.Off, q), sort),
				ite(inRq, sel(old, add(sl.Off, mk(SInt, sig, q)), sort), sel(old, add(sl.Off, q), sort)))))
			// ground instances for the first and the last element (the common "append, then sort" shape), so the
			// solvers need not find them by quantifier instantiation
			for _, idx := range []*Term{intLit(0), sub(sl.Len, intLit(1))} {
				ti := mk(SInt, tau, idx)
				e.assumeHeavy(implies(inR(idx), and(inR(ti), eq(mk(SInt, sig, ti), idx), eq(sel(na, add(sl.Off, ti), sort), sel(old, add(sl.Off, idx), sort)))))
			}
			st.heap[k] = sto(arr, sl.Base, na)
			return nil
		})
		// the order it establishes: no element is `less` than an element placed before it. The real `less` closure
		// is executed on two quantified indices in the state after the call (loop-free closures only).
		if mc, ok := closureOf[args[1]]; ok && !hasLoop(mc.Fn.(*ssa.Function)) {
			fn := mc.Fn.(*ssa.Function)
			nbound += 2
			jb := mk(SInt, fmt.Sprintf("sj!q%d", nbound-1))
			kb := mk(SInt, fmt.Sprintf("sk!q%d", nbound))
			lo := len(e.assumes)
			e.quiet++
			saved := e.lastFrame
			vals, out := e.run(fn, st.clone(), []SV{&Scalar{T: kb, Ty: types.Typ[types.Int]}, &Scalar{T: jb, Ty: types.Typ[types.Int]}}, closures[mc], 1)
			e.lastFrame = saved
			e.quiet--
			facts := append([]*Term{}, e.assumes[lo:]...)
			e.assumes = e.assumes[:lo]
			if vals != nil {
				ante := and(le(intLit(0), jb), lt(jb, kb), lt(kb, sl.Len), out.reach)
				for _, f := range facts {
					if hasBound(f) {
						ante = and(ante, f)
					} else {
						e.assume(f) // a fact about the state, not about the two indices
					}
				}
				e.assume(mk(SBool, "forall", mk("binder", "(("+jb.Op+" Int) ("+kb.Op+" Int))"), implies(ante, not(scal(vals[0])))))
				e.note("sort.Slice: the result is ordered by the `less` closure given (its body executed on quantified indices)")
			}
		}
		return &TupleV{}
	}
	// strings.Builder: the accumulated content is a ghost string per builder address
	bKey := "G|builder|content"
	bArr := func(e *Exec, st *BState) *Term { return e.heapArr(st, bKey, arrSort(SInt, SStr)) }
	bAddr := func(a SV) *Term {
		p := a.(*PtrV)
		if p.Addr != nil {
			return p.Addr
		}
		// a local strings.Builder value: identified by its variable
		if p.LV != nil && p.LV.Alloc != nil {
			return intLit(-1000000 - int64(p.LV.Alloc.Pos()))
		}
		panic("strings.Builder at an unsupported location")
	}
	externs["(*strings.Builder).WriteString"] = func(e *Exec, st *BState, x *ssa.Call, args []SV) SV {
		a := bAddr(args[0])
		arr := bArr(e, st)
		st.heap[bKey] = sto(arr, a, app(SStr, "str.++", sel(arr, a, SStr), scal(args[1])))
		tup := x.Type().(*types.Tuple)
		return &TupleV{Elems: []SV{&Scalar{T: e.strLen(scal(args[1])), Ty: tup.At(0).Type()}, zeroValue(tup.At(1).Type())}}
	}
	externs["(*strings.Builder).WriteRune"] = func(e *Exec, st *BState, x *ssa.Call, args []SV) SV {
		a := bAddr(args[0])
		arr := bArr(e, st)
		st.heap[bKey] = sto(arr, a, app(SStr, "str.++", sel(arr, a, SStr), ufun("ext.runeString", []string{SInt}, SStr, scal(args[1]))))
		tup := x.Type().(*types.Tuple)
		return &TupleV{Elems: []SV{e.freshSV(tup.At(0).Type(), "n", st.reach, false), zeroValue(tup.At(1).Type())}}
	}
	externs["(*strings.Builder).String"] = func(e *Exec, st *BState, x *ssa.Call, args []SV) SV {
		return &Scalar{T: sel(bArr(e, st), bAddr(args[0]), SStr), Ty: x.Type()}
	}
	externs["(*strings.Builder).Reset"] = func(e *Exec, st *BState, x *ssa.Call, args []SV) SV {
		st.heap[bKey] = sto(bArr(e, st), bAddr(args[0]), strLit(""))
		return &TupleV{}
	}
	for _, n := range []string{"strconv.FormatInt", "strconv.FormatFloat", "strconv.FormatBool", "strconv.Itoa", "strconv.Quote"} {
		name := n
		externs[name] = func(e *Exec, st *BState, x *ssa.Call, args []SV) SV {
			var ts []*Term
			var sorts []string
			for _, a := range args {
				ts = append(ts, scal(a))
				sorts = append(sorts, scal(a).Sort)
			}
			return &Scalar{T: ufun("ext."+name, sorts, SStr, ts...), Ty: x.Type()}
		}
	}
	externs["(time.Time).Format"] = func(e *Exec, st *BState, x *ssa.Call, args []SV) SV {
		tv := args[0].(*StructV)
		return &Scalar{T: ufun("ext.time.Format", []string{SInt, SInt, SStr}, SStr, scal(tv.Fields[0]), scal(tv.Fields[1]), scal(args[1])), Ty: x.Type()}
	}
	// time model: (ns, aux)
	tm := func(ns, aux *Term, t types.Type) SV {
		return &StructV{Ty: t, Fields: []SV{&Scalar{T: ns}, &Scalar{T: aux}}}
	}
	nsOf := func(sv SV) *Term { return scal(sv.(*StructV).Fields[0]) }
	externs["time.Unix"] = func(e *Exec, st *BState, x *ssa.Call, args []SV) SV {
		sec, nsec := scal(args[0]), scal(args[1])
		return tm(add(app(SInt, "*", sec, intLit(1000000000)), nsec), e.fresh("aux", SInt), x.Type())
	}
	externs["(time.Time).Unix"] = func(e *Exec, st *BState, x *ssa.Call, args []SV) SV {
		return &Scalar{T: app(SInt, "div", nsOf(args[0]), intLit(1000000000)), Ty: x.Type()}
	}
	externs["(time.Time).UnixNano"] = func(e *Exec, st *BState, x *ssa.Call, args []SV) SV {
		return &Scalar{T: app(SInt, "wrap64", nsOf(args[0])), Ty: x.Type()}
	}
	externs["(time.Time).Add"] = func(e *Exec, st *BState, x *ssa.Call, args []SV) SV {
		return tm(add(nsOf(args[0]), scal(args[1])), scal(args[0].(*StructV).Fields[1]), x.Type())
	}
	externs["(time.Time).Truncate"] = func(e *Exec, st *BState, x *ssa.Call, args []SV) SV {
		// documented contract: d <= 0 -> unchanged; else round down to a multiple of d since the zero time
		t, d := nsOf(args[0]), scal(args[1])
		zero := bigLit("(- 62135596800000000000)")
		// relational form (no mod in the VC): r <= t, t - r < d, r - zero = d * q
		r := e.fresh("trunc", SInt)
		q := e.fresh("trunc.q", SInt)
		e.assume(implies(le(d, intLit(0)), eq(r, t)))
		e.assume(implies(lt(intLit(0), d), and(le(r, t), lt(sub(t, r), d), eq(sub(r, zero), app(SInt, "*", d, q)))))
		return tm(r, scal(args[0].(*StructV).Fields[1]), x.Type())
	}
	// the clock: an arbitrary instant after the zero time (year 1)
	externs["time.Now"] = func(e *Exec, st *BState, x *ssa.Call, args []SV) SV {
		ns := e.fresh("time.Now.ns", SInt)
		e.assume(lt(bigLit("(- 62135596800000000000)"), ns))
		return tm(ns, e.fresh("time.Now.aux", SInt), x.Type())
	}
	externs["(time.Time).IsZero"] = func(e *Exec, st *BState, x *ssa.Call, args []SV) SV {
		return &Scalar{T: eq(nsOf(args[0]), bigLit("(- 62135596800000000000)")), Ty: x.Type()}
	}
	externs["(time.Time).Equal"] = func(e *Exec, st *BState, x *ssa.Call, args []SV) SV {
		return &Scalar{T: eq(nsOf(args[0]), nsOf(args[1])), Ty: x.Type()}
	}
	externs["(time.Time).Sub"] = func(e *Exec, st *BState, x *ssa.Call, args []SV) SV {
		d := sub(nsOf(args[0]), nsOf(args[1]))
		// saturates at the Duration range
		return &Scalar{T: ite(lt(bigLit("MAX64"), d), bigLit("MAX64"), ite(lt(d, bigLit("MIN64")), bigLit("MIN64"), d)), Ty: x.Type()}
	}
	externs["(time.Time).After"] = func(e *Exec, st *BState, x *ssa.Call, args []SV) SV {
		return &Scalar{T: lt(nsOf(args[1]), nsOf(args[0])), Ty: x.Type()}
	}
	externs["(time.Time).Before"] = func(e *Exec, st *BState, x *ssa.Call, args []SV) SV {
		return &Scalar{T: lt(nsOf(args[0]), nsOf(args[1])), Ty: x.Type()}
	}
}

var _ = fmt.Sprintf

func errMsg(v *IfaceV) *Term {
	return ufun("ghost.errmsg", []string{SInt, SInt}, SStr, v.Tag, v.Ref)
}

// varargSources finds, for a call f(fixed..., a...) whose variadic slice was built in place, the SSA values stored
// into the backing array (in index order).
func varargSources(x *ssa.Call) []ssa.Value {
	if len(x.Call.Args) == 0 {
		return nil
	}
	sl, ok := x.Call.Args[len(x.Call.Args)-1].(*ssa.Slice)
	if !ok {
		return nil
	}
	al, ok := sl.X.(*ssa.Alloc)
	if !ok {
		return nil
	}
	at, ok := al.Type().(*types.Pointer).Elem().Underlying().(*types.Array)
	if !ok {
		return nil
	}
	out := make([]ssa.Value, at.Len())
	for _, ref := range *al.Referrers() {
		ia, ok := ref.(*ssa.IndexAddr)
		if !ok {
			continue
		}
		k, ok := ia.Index.(*ssa.Const)
		if !ok {
			return nil
		}
		for _, r2 := range *ia.Referrers() {
			if stv, ok := r2.(*ssa.Store); ok && stv.Addr == ia {
				out[k.Int64()] = stv.Val
			}
		}
	}
	for _, v := range out {
		if v == nil {
			return nil
		}
	}
	return out
}

// sprintfTerm builds sprintf(format, args...) as an uninterpreted function of the format and the argument contents
// (boxed scalars by content, other values by interface identity); it also returns the error-typed arguments.
func (e *Exec) sprintfTerm(fr *Frame, st *BState, x *ssa.Call, args []SV) (*Term, []*IfaceV) {
	srcs := varargSources(x)
	if srcs == nil && len(x.Call.Args) > 1 {
		if c, ok := x.Call.Args[len(x.Call.Args)-1].(*ssa.Const); !ok || c.Value != nil {
			return nil, nil
		}
	}
	ts := []*Term{scal(args[0])}
	sorts := []string{SStr}
	var errs []*IfaceV
	for _, src := range srcs {
		switch v := src.(type) {
		case *ssa.MakeInterface:
			payload := e.val(fr, v.X)
			var ls []*Term
			if p, ok := payload.(*PtrV); ok && p.Addr == nil {
				ls = []*Term{e.fresh("sprintf.arg", SInt)}
			} else {
				leaves(payload, &ls)
			}
			for _, l := range ls {
				ts = append(ts, l)
				sorts = append(sorts, l.Sort)
			}
		default:
			iv, ok := e.val(fr, src).(*IfaceV)
			if !ok {
				return nil, nil
			}
			ts = append(ts, iv.Tag, iv.Ref)
			sorts = append(sorts, SInt, SInt)
			if types.Identical(src.Type(), types.Universe.Lookup("error").Type()) {
				errs = append(errs, iv)
			} else if ci, ok := src.(*ssa.ChangeInterface); ok && types.Identical(ci.X.Type(), types.Universe.Lookup("error").Type()) {
				errs = append(errs, iv)
			}
		}
	}
	name := "ext.sprintf"
	for _, s := range sorts[1:] {
		name += "." + sanitize(s)
	}
	return ufun(name, sorts, SStr, ts...), errs
}

// callByContract is the modular call rule: the caller proves the callee's requires, the callee's frame is havoc'd,
// and the callee's ensures (and definitional clauses) are assumed for fresh results.
func (e *Exec) callByContract(fr *Frame, st *BState, x *ssa.Call, f *ssa.Function, ct *FuncContract, args []SV, bind []SV) SV {
	cf := &Frame{fn: f, regs: map[ssa.Value]SV{}, contractOnly: true, bind: bind}
	for i, fv := range f.FreeVars {
		if i < len(bind) {
			cf.regs[fv] = bind[i]
		}
	}
	for i, p := range f.Params {
		cf.regs[p] = args[i]
	}
	label := selectorOf(f)
	if ct.Flags["trusted"] {
		e.assumed = append(e.assumed, "TRUSTED (assumed, not proved) contract of "+pkgShort(ct.Pkg)+"."+label)
	}
	env := &SpecEnv{e: e, fr: cf, st: st, bound: map[string]SV{}, cs: e.cs, pkg: ct.Pkg}
	for i, r := range ct.Requires {
		e.obligeNamed(st, fmt.Sprintf("call.%s.%s", label, clauseLabel(r, "requires", i)), x.Pos(), scal(env.evalGoal(r.Expr)))
	}
	pre := st.clone()
	e.havocCalleeFrame(st, pre, f, args, label, ct.Flags["pure"])
	var res SV
	var results []SV
	if tup, ok := x.Type().(*types.Tuple); ok {
		tv := &TupleV{}
		for i := 0; i < tup.Len(); i++ {
			r := e.freshSV(tup.At(i).Type(), "ret."+f.Name(), st.reach, false)
			e.saneInput(st, tup.At(i).Type(), r, st.reach)
			tv.Elems = append(tv.Elems, r)
		}
		res, results = tv, tv.Elems
	} else {
		r := e.freshSV(x.Type(), "ret."+f.Name(), st.reach, false)
		e.saneInput(st, x.Type(), r, st.reach)
		res, results = r, []SV{r}
	}
	post := &SpecEnv{e: e, fr: cf, st: st, bound: map[string]SV{}, cs: e.cs, pkg: ct.Pkg, oldSt: pre, oldFr: cf}
	for k, v := range results {
		post.bound[fmt.Sprintf("result%d", k)] = v
	}
	if len(results) > 0 {
		post.bound["result"] = results[0]
	}
	for _, en := range append(append([]Clause{}, ct.Ensures...), ct.Defines...) {
		e.assume(implies(st.reach, scal(post.eval(en.Expr))))
	}
	return res
}

// havocOutTraces: a callee that may call produce/metaSend extends the ghost output traces by an unknown suffix
// (the prefix is unchanged); what it appended is described by the callee's ensures.
func (e *Exec) havocOutTraces(st *BState, why string, out, outm bool) {
	if v, ok := st.ghost["$produceFailed"]; ok {
		// produce / metaSend may have been called (and failed) in the havoc'd part: sticky flag can only become true
		nv := e.fresh(why+".produceFailed", SBool)
		e.assume(implies(scal(v), nv))
		st.ghost["$produceFailed"] = boolSV(nv)
	}
	for _, g := range []string{"OUT", "OUTM"} {
		if g == "OUT" && !out || g == "OUTM" && !outm {
			continue
		}
		v, ok := st.ghost[g]
		if !ok {
			continue
		}
		sl := v.(*SliceV)
		n := e.fresh(why+"."+g+".len", SInt)
		e.assume(and(le(sl.Len, n), lt(n, bigLit("MAX64"))))
		st.ghost[g] = &SliceV{Ty: sl.Ty, Base: sl.Base, Off: sl.Off, Len: n, Cap: sl.Cap}
		et := sl.Ty.Underlying().(*types.Slice).Elem()
		oldLen := sl.Len
		build(et, "", func(path, sort string, _ types.Type) *Term {
			k := heapKey("A", et, path)
			arr := e.heapArr(st, k, arrSort(SInt, arrSort(SInt, sort)))
			na := e.fresh(why+"."+g+path, arrSort(SInt, sort))
			nbound++
			j := mk(SInt, fmt.Sprintf("j!q%d", nbound))
			oldInner := sel(arr, sl.Base, arrSort(SInt, sort))
			e.assume(mk(SBool, "forall", mk("binder", "(("+j.Op+" Int))"), implies(and(le(intLit(0), j), lt(j, oldLen)), eq(sel(na, j, sort), sel(oldInner, j, sort)))))
			st.heap[k] = sto(arr, sl.Base, na)
			return nil
		})
		if g == "OUT" {
			st.heap[netKey(g)] = e.fresh(why+".net."+g, sortArrII)
		}
	}
}

var byteSliceOf = map[*Term]*Term{} // base of a []byte(s) conversion result -> s

// ownedBy: the variable is a local of f or of a function literal nested in f.
func ownedBy(a *ssa.Alloc, f *ssa.Function) bool {
	for p := a.Parent(); p != nil; p = p.Parent() {
		if p == f {
			return true
		}
	}
	return false
}

var staticFuncOf = map[SV]*ssa.Function{}

// lastCallGhost: is k one of the $lastrecv.M / $lastarg.M.i ghosts, and of which method
func lastCallGhost(k string) (string, bool) {
	if strings.HasPrefix(k, "$lastrecv.") {
		return strings.TrimPrefix(k, "$lastrecv."), true
	}
	if strings.HasPrefix(k, "$lastres.") {
		return strings.TrimPrefix(k, "$lastres."), true
	}
	if strings.HasPrefix(k, "$lastarg.") {
		r := strings.TrimPrefix(k, "$lastarg.")
		if i := strings.LastIndex(r, "."); i >= 0 {
			return r[:i], true
		}
	}
	return "", false
}

// havocCalleeFrame: the effects of a call to a module function that is not executed (called by contract, or
// abstracted): the heap regions (by static type of the written location) its code may store to, the caller's
// captured variables it assigns, what it may write through pointer arguments, its produce/metaSend output and the
// interface-call counters of the methods it may invoke get arbitrary (monotone where applicable) contents.
func (e *Exec) havocCalleeFrame(st, pre *BState, f *ssa.Function, args []SV, label string, pure bool) {
	if !pure && funcMayWrite(f, map[*ssa.Function]bool{}) {
		// frame: the heap regions (by static type of the written location) the callee's code may store to
		keys := map[string]bool{}
		writeKeys(f, map[*ssa.Function]bool{}, keys)
		if os.Getenv("GOVC_DEBUG") != "" {
			fmt.Fprintf(os.Stderr, "frame of %s: %v\n", label, keys)
		}
		preFrontier := e.frontier(st)
		for _, k := range sortedHeapKeys(st.heap) {
		h := st.heap[k]
			for pre := range keys {
				if strings.HasPrefix(k, pre) {
					st.heap[k] = e.havocHeapKey(k, h, "call."+f.Name()+".")
					break
				}
			}
			if keys["J|new"] && !keys["J|"] && strings.HasPrefix(k, "J|") {
				// the callee only creates JSON values and fills those: everything allocated before the call is unchanged
				nh := e.fresh("call."+f.Name()+".new."+k, h.Sort)
				nbound++
				a := mk(SInt, fmt.Sprintf("a!q%d", nbound))
				inner := h.Sort[len("(Array Int ") : len(h.Sort)-1]
				e.assume(mk(SBool, "forall", mk("binder", "(("+a.Op+" Int))"), implies(lt(a, preFrontier), eq(sel(nh, a, inner), sel(h, a, inner)))))
				st.heap[k] = nh
			}
		}
		epochCounter++
		for pre := range keys {
			st.hepoch[pre] = epochCounter
		}
		old := e.frontier(st)
		nf := e.fresh("call.frontier", SInt)
		e.assume(le(old, nf))
		st.ghost["$frontier"] = intSV(nf)
		// captured variables of the caller that the callee (a literal of the caller) assigns
		cbCells := map[*ssa.Alloc]bool{}
		assignedCells(f, map[*ssa.Function]bool{}, cbCells)
		for _, a := range sortedAllocs(cbCells) {
			if ownedBy(a, f) {
				continue // the callee's own locals (a fresh activation), not variables of the caller
			}
			if _, ok := st.cells[a]; ok {
				nv := e.freshSV(a.Type().(*types.Pointer).Elem(), "call."+a.Comment, st.reach, false)
				e.saneInput(st, a.Type().(*types.Pointer).Elem(), nv, tTrue)
				st.cells[a] = nv
			}
		}
		// a pointer argument into the interior of a caller object (e.g. &c.sum): the callee may write through it
		for _, a := range args {
			if p, ok := a.(*PtrV); ok && p.LV != nil {
				et := p.Ty.Underlying().(*types.Pointer).Elem()
				nv := e.freshSV(et, "call."+f.Name()+".through", st.reach, false)
				e.writeLV(st, p, et, nv)
			}
		}
	}
	if o, m := producesInto(f); o || m {
		e.havocOutTraces(st, "call."+f.Name(), o, m)
	}
	// interface-call counters may advance by an unknown amount inside the callee (its ensures say by how much)
	calleeInvokes := map[string]bool{}
	invokedMethods(f, map[*ssa.Function]bool{}, calleeInvokes)
	for m := range calleeInvokes {
		if _, ok := st.ghost["$calls."+m]; !ok {
			st.ghost["$calls."+m] = intSV(intLit(0))
			pre.ghost["$calls."+m] = intSV(intLit(0))
			ghostTypes["$calls."+m] = types.Typ[types.Int]
		}
	}
	for _, k := range sortedGhostKeys(st.ghost) {
		if strings.HasPrefix(k, "$calls.") && calleeInvokes[strings.TrimPrefix(k, "$calls.")] {
			nv := e.fresh("call."+k, SInt)
			e.assume(le(scal(st.ghost[k]), nv))
			st.ghost[k] = intSV(nv)
		}
		if m, ok := lastCallGhost(k); ok && calleeInvokes[m] {
			st.ghost[k] = e.freshSV(ghostTypes[k], "call."+k, st.reach, false)
		}
	}
}


// boxedString: the string value of an interface argument that is a string boxed at the call site (else nil).
func boxedString(e *Exec, a ssa.Value) *Term {
	mi, ok := a.(*ssa.MakeInterface)
	if !ok {
		return nil
	}
	if b, ok := mi.X.Type().Underlying().(*types.Basic); !ok || b.Kind() != types.String {
		return nil
	}
	fr := e.curFrame
	if fr == nil {
		return nil
	}
	return scal(e.val(fr, mi.X))
}

var regexpPtr types.Type

// regexpPtrType: *regexp.Regexp, found through the program of the calling function.
func regexpPtrType(x *ssa.Call) types.Type {
	if regexpPtr != nil {
		return regexpPtr
	}
	prog := x.Parent().Prog
	for _, p := range prog.AllPackages() {
		if p.Pkg.Path() == "regexp" {
			if t := p.Type("Regexp"); t != nil {
				regexpPtr = types.NewPointer(t.Type())
				return regexpPtr
			}
		}
	}
	panic("regexp.Regexp not in the program")
}

module govc

go 1.23

require (
	github.com/cube2222/octosql v0.0.0
	golang.org/x/tools v0.29.0
)

require (
	golang.org/x/mod v0.22.0 // indirect
	golang.org/x/sync v0.10.0 // indirect
)

replace github.com/cube2222/octosql => /repo

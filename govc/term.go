package main

import (
	"fmt"
	"os"
	"sort"
	"strings"
	"sync"
)

// Term is a hash-consed SMT-LIB term.
type Term struct {
	Op   string // symbol or literal
	Args []*Term
	Sort string
	id   int
}

var termTable = map[string]*Term{}
var termCount int

func mk(sort, op string, args ...*Term) *Term {
	var sb strings.Builder
	sb.WriteString(sort)
	sb.WriteByte('|')
	sb.WriteString(op)
	for _, a := range args {
		fmt.Fprintf(&sb, " %d", a.id)
	}
	k := sb.String()
	if t, ok := termTable[k]; ok {
		return t
	}
	termCount++
	t := &Term{Op: op, Args: args, Sort: sort, id: termCount}
	termTable[k] = t
	return t
}

const (
	SInt    = "Int"
	SBool   = "Bool"
	SStr    = "String"
	SF64    = "(_ FloatingPoint 11 53)"
	SArrII  = "(Array Int Int)"
)

func arrSort(idx, elem string) string { return "(Array " + idx + " " + elem + ")" }

var (
	tTrue  = mk(SBool, "true")
	tFalse = mk(SBool, "false")
)

func intLit(v int64) *Term {
	if v < 0 {
		if v == -9223372036854775808 {
			return mk(SInt, "(- 9223372036854775808)")
		}
		return mk(SInt, fmt.Sprintf("(- %d)", -v))
	}
	return mk(SInt, fmt.Sprintf("%d", v))
}
func bigLit(s string) *Term { return mk(SInt, s) }
func boolLit(b bool) *Term {
	if b {
		return tTrue
	}
	return tFalse
}
func strLit(s string) *Term {
	var sb strings.Builder
	sb.WriteByte('"')
	for _, r := range []byte(s) {
		if r == '"' {
			sb.WriteString("\"\"")
		} else if r < 32 || r > 126 || r == '\\' {
			fmt.Fprintf(&sb, "\\u{%x}", r)
		} else {
			sb.WriteByte(r)
		}
	}
	sb.WriteByte('"')
	return mk(SStr, sb.String())
}

func isLit(t *Term, op string) bool { return len(t.Args) == 0 && t.Op == op }

func and(ts ...*Term) *Term {
	var out []*Term
	for _, t := range ts {
		if t == tTrue {
			continue
		}
		if t == tFalse {
			return tFalse
		}
		if t.Op == "and" {
			out = append(out, t.Args...)
		} else {
			out = append(out, t)
		}
	}
	if len(out) == 0 {
		return tTrue
	}
	if len(out) == 1 {
		return out[0]
	}
	return mk(SBool, "and", out...)
}
func or(ts ...*Term) *Term {
	var out []*Term
	for _, t := range ts {
		if t == tFalse {
			continue
		}
		if t == tTrue {
			return tTrue
		}
		out = append(out, t)
	}
	if len(out) == 0 {
		return tFalse
	}
	if len(out) == 1 {
		return out[0]
	}
	return mk(SBool, "or", out...)
}
func not(t *Term) *Term {
	if t == tTrue {
		return tFalse
	}
	if t == tFalse {
		return tTrue
	}
	if t.Op == "not" {
		return t.Args[0]
	}
	return mk(SBool, "not", t)
}
func implies(a, b *Term) *Term {
	if a == tTrue {
		return b
	}
	if a == tFalse || b == tTrue {
		return tTrue
	}
	return mk(SBool, "=>", a, b)
}
func ite(c, a, b *Term) *Term {
	if c == tTrue {
		return a
	}
	if c == tFalse {
		return b
	}
	if a == b {
		return a
	}
	if a.Sort == SBool {
		if a == tTrue && b == tFalse {
			return c
		}
		if a == tFalse && b == tTrue {
			return not(c)
		}
	}
	return mk(a.Sort, "ite", c, a, b)
}
func isIntLit(t *Term) bool {
	if len(t.Args) != 0 || t.Sort != SInt || t.Op == "" {
		return false
	}
	c := t.Op[0]
	return c >= '0' && c <= '9' || strings.HasPrefix(t.Op, "(- ")
}

func eq(a, b *Term) *Term {
	if a == b {
		return tTrue
	}
	if isIntLit(a) && isIntLit(b) {
		return tFalse // distinct hash-consed literals
	}
	if a.Sort == SF64 {
		// structural equality on floats is bit-identity-ish "="; Go == uses fp.eq; callers choose.
		return mk(SBool, "=", a, b)
	}
	return mk(SBool, "=", a, b)
}
func app(sort, f string, args ...*Term) *Term { return mk(sort, f, args...) }
func sel(arr, idx *Term, elemSort string) *Term {
	if arr.Op == "store" && arr.Args[1] == idx {
		return arr.Args[2]
	}
	return mk(elemSort, "select", arr, idx)
}
func sto(arr, idx, v *Term) *Term { return mk(arr.Sort, "store", arr, idx, v) }

func le(a, b *Term) *Term  { return mk(SBool, "<=", a, b) }
func lt(a, b *Term) *Term  { return mk(SBool, "<", a, b) }
func add(a, b *Term) *Term { return mk(SInt, "+", a, b) }
func sub(a, b *Term) *Term { return mk(SInt, "-", a, b) }

// ---- printing with sharing ----

type printer struct {
	uses  map[*Term]int
	names map[*Term]string
	defs  []string
	decls map[string]string // symbol -> declaration line
}

func newPrinter() *printer {
	return &printer{uses: map[*Term]int{}, names: map[*Term]string{}, decls: map[string]string{}}
}

func (p *printer) count(t *Term) {
	p.uses[t]++
	if p.uses[t] > 1 {
		return
	}
	for _, a := range t.Args {
		p.count(a)
	}
}

var boundMemo = map[*Term]bool{}

// hasBound reports whether t mentions a quantifier-bound variable (named x!qN) or is a binder.
func hasBound(t *Term) bool {
	if v, ok := boundMemo[t]; ok {
		return v
	}
	r := false
	if len(t.Args) == 0 {
		r = strings.Contains(t.Op, "!q")
	} else {
		for _, a := range t.Args {
			if hasBound(a) {
				r = true
				break
			}
		}
	}
	boundMemo[t] = r
	return r
}

var strMemo = map[*Term]bool{}

// hasStrSort: does the term contain a sub-term of sort String (string theory makes quantified goals much harder for
// the solvers; a goal without strings is first tried without the assumptions that talk about them)
func hasStrSort(t *Term) bool {
	if v, ok := strMemo[t]; ok {
		return v
	}
	r := t.Sort == SStr
	if !r {
		for _, a := range t.Args {
			if hasStrSort(a) {
				r = true
				break
			}
		}
	}
	strMemo[t] = r
	return r
}

func size(t *Term) int {
	n := 1
	for _, a := range t.Args {
		n += size(a)
		if n > 50 {
			return n
		}
	}
	return n
}

func (p *printer) str(t *Term) string {
	if n, ok := p.names[t]; ok {
		return n
	}
	var s string
	if len(t.Args) == 0 {
		s = t.Op
	} else {
		parts := make([]string, 0, len(t.Args)+1)
		parts = append(parts, t.Op)
		for _, a := range t.Args {
			parts = append(parts, p.str(a))
		}
		if (t.Op == "forall" || t.Op == "exists") && len(t.Args) == 2 && t.Args[0].Sort == "binder" && os.Getenv("GOVC_QID") != "" {
			// name the quantifier after its bound variable (z3's smt.qi.profile reports instantiation counts per qid)
			q := strings.TrimPrefix(t.Args[0].Op, "((")
			if i := strings.Index(q, " "); i > 0 {
				if t.Args[1].Op == "!" {
					parts[2] = strings.TrimSuffix(parts[2], ")") + " :qid " + strings.ReplaceAll(q[:i], "!", "_") + ")"
				} else {
					parts[2] = "(! " + parts[2] + " :qid " + strings.ReplaceAll(q[:i], "!", "_") + ")"
				}
			}
		}
		s = "(" + strings.Join(parts, " ") + ")"
	}
	if len(t.Args) > 0 && p.uses[t] > 1 && size(t) > 6 && !hasBound(t) {
		name := fmt.Sprintf("$s%d", t.id)
		p.defs = append(p.defs, fmt.Sprintf("(define-fun %s () %s %s)", name, t.Sort, s))
		p.names[t] = name
		return name
	}
	return s
}

// symbols: declared constants / functions
type symtab struct {
	decl  map[string]string
	order []string
}

var syms = &symtab{decl: map[string]string{}}

func declare(name, line string) {
	if old, ok := syms.decl[name]; ok {
		if old != line {
			panic("conflicting SMT declarations for " + name + ": " + old + " vs " + line)
		}
		return
	}
	syms.decl[name] = line
	syms.order = append(syms.order, name)
}

var declMu sync.Mutex

func declareLocal(name, sort string) {
	declMu.Lock()
	defer declMu.Unlock()
	declare(name, fmt.Sprintf("(declare-const %s %s)", name, sort))
}

func konst(name, sort string) *Term {
	declare(name, fmt.Sprintf("(declare-const %s %s)", name, sort))
	return mk(sort, name)
}

func ufun(name string, argSorts []string, ret string, args ...*Term) *Term {
	declare(name, fmt.Sprintf("(declare-fun %s (%s) %s)", name, strings.Join(argSorts, " "), ret))
	return mk(ret, name, args...)
}

func collectSyms(t *Term, seen map[*Term]bool, out map[string]bool) {
	if seen[t] {
		return
	}
	seen[t] = true
	if _, ok := syms.decl[t.Op]; ok {
		out[t.Op] = true
	}
	for _, a := range t.Args {
		collectSyms(a, seen, out)
	}
}

const prelude = `(define-fun MIN64 () Int (- 9223372036854775808))
(define-fun MAX64 () Int 9223372036854775807)
(define-fun wrap64 ((x Int)) Int (ite (and (<= MIN64 x) (<= x MAX64)) x (- (mod (+ x 9223372036854775808) 18446744073709551616) 9223372036854775808)))
(define-fun wrap32 ((x Int)) Int (ite (and (<= (- 2147483648) x) (<= x 2147483647)) x (- (mod (+ x 2147483648) 4294967296) 2147483648)))
(define-fun tdiv ((a Int) (b Int)) Int (ite (>= a 0) (ite (> b 0) (div a b) (- (div a (- b)))) (ite (> b 0) (- (div (- a) b)) (div (- a) (- b)))))
(define-fun tmod ((a Int) (b Int)) Int (- a (* b (tdiv a b))))
`

// script renders assumptions + negated goal, with only the needed declarations.
func script(assumptions []*Term, goal *Term, getValues []*Term) string {
	{
		seenA := map[*Term]bool{}
		var uniq []*Term
		for _, a := range assumptions {
			if !seenA[a] {
				seenA[a] = true
				uniq = append(uniq, a)
			}
		}
		assumptions = uniq
	}
	p := newPrinter()
	all := append([]*Term{}, assumptions...)
	all = append(all, goal)
	for _, t := range all {
		p.count(t)
	}
	used := map[string]bool{}
	seen := map[*Term]bool{}
	for _, t := range all {
		collectSyms(t, seen, used)
	}
	for _, t := range getValues {
		collectSyms(t, seen, used)
	}
	var sb strings.Builder
	sb.WriteString("(set-option :produce-models true)\n(set-logic ALL)\n")
	sb.WriteString(prelude)
	for _, name := range syms.order {
		if used[name] {
			sb.WriteString(syms.decl[name])
			sb.WriteByte('\n')
		}
	}
	var body []string
	for _, a := range assumptions {
		body = append(body, "(assert "+p.str(a)+")")
	}
	body = append(body, "(assert (not "+p.str(goal)+"))")
	for _, d := range p.defs {
		sb.WriteString(d)
		sb.WriteByte('\n')
	}
	for _, b := range body {
		sb.WriteString(b)
		sb.WriteByte('\n')
	}
	sb.WriteString("(check-sat)\n")
	if len(getValues) > 0 {
		var vs []string
		for _, v := range getValues {
			vs = append(vs, p.str(v))
		}
		sort.Strings(vs)
		sb.WriteString("(get-value (" + strings.Join(vs, " ") + "))\n")
	}
	return sb.String()
}

// sliceAssumptions: the assumptions in the cone of influence of the goal. For a goal `reach => body` the cone starts
// from the symbols of body only (the path condition is kept as it is but does not pull anything in); an assumption
// joins when it shares a non-ubiquitous declared symbol with the cone, and then contributes its own symbols (for
// `depth` rounds; 0 = to the fixpoint). Fewer
// assumptions: an unsat answer under the slice is a proof of the full query.
func sliceAssumptions(assumptions []*Term, goal *Term, depth int) []*Term {
	body := goal
	if goal.Op == "=>" && len(goal.Args) == 2 {
		body = goal.Args[1]
	}
	n := len(assumptions)
	symsOf := make([]map[string]bool, n)
	freq := map[string]int{}
	for i, a := range assumptions {
		m := map[string]bool{}
		collectSyms(a, map[*Term]bool{}, m)
		symsOf[i] = m
		for k := range m {
			freq[k]++
		}
	}
	ubiq := func(k string) bool { return n >= 12 && freq[k]*3 > n }
	cone := map[string]bool{}
	collectSyms(body, map[*Term]bool{}, cone)
	for k := range cone {
		if ubiq(k) {
			delete(cone, k)
		}
	}
	in := make([]bool, n)
	for round := 0; depth <= 0 || round < depth; round++ {
		var add []int
		for i := range assumptions {
			if in[i] {
				continue
			}
			for k := range symsOf[i] {
				if cone[k] {
					add = append(add, i)
					break
				}
			}
		}
		if len(add) == 0 {
			break
		}
		for _, i := range add {
			in[i] = true
			for k := range symsOf[i] {
				if !ubiq(k) {
					cone[k] = true
				}
			}
		}
	}
	var out []*Term
	for i, a := range assumptions {
		if in[i] {
			out = append(out, a)
		}
	}
	return out
}

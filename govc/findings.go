package main

import (
	"encoding/json"
	"fmt"
	"os"
	"path"
	"path/filepath"
	"strings"
)

// Finding is one entry of /verif/known_findings.json: a genuine defect of the pinned tree, identified by the
// obligation it fails and the class of inputs on which it fails. The check re-proves the obligation with the class
// excluded, so any other violation of the same obligation is still reported. The file is never written at run time.
type Finding struct {
	Property   string `json:"property"`
	Obligation string `json:"obligation"` // glob over the obligation name
	Class      string `json:"class"`      // spec expression over the unit's inputs (entry state); "true" = whole obligation
	What       string `json:"what"`
	Status     string `json:"status"` // open | fixed
	Commit     string `json:"commit,omitempty"`
	Witness    string `json:"witness,omitempty"`
}

type Findings struct {
	Findings []*Finding `json:"findings"`
	Fixed    []string   `json:"fixed"`
}

func loadFindings() (*Findings, error) {
	data, err := os.ReadFile(filepath.Join(verifDir(), "known_findings.json"))
	if err != nil {
		if os.IsNotExist(err) {
			return &Findings{}, nil
		}
		return nil, err
	}
	f := &Findings{}
	if err := json.Unmarshal(data, f); err != nil {
		return nil, fmt.Errorf("known_findings.json: %v", err)
	}
	return f, nil
}

func globMatch(g, s string) bool {
	// '*' matches any run of characters (including '/'); brackets are literal
	parts := strings.Split(g, "*")
	if len(parts) == 1 {
		return g == s
	}
	if !strings.HasPrefix(s, parts[0]) {
		return false
	}
	s = s[len(parts[0]):]
	for _, p := range parts[1 : len(parts)-1] {
		i := strings.Index(s, p)
		if i < 0 {
			return false
		}
		s = s[i+len(p):]
	}
	return strings.HasSuffix(s, parts[len(parts)-1])
}

func (f *Findings) match(prop, obl string) []*Finding {
	var out []*Finding
	for _, x := range f.Findings {
		if x.Status == "fixed" {
			continue // a fixed entry suppresses nothing
		}
		if x.Property == prop && globMatch(x.Obligation, obl) {
			out = append(out, x)
		}
	}
	return out
}

// classTerm evaluates the disjunction of the findings' input classes in the entry state of the unit.
func (g *GenUnit) classTerm(fds []*Finding, o *Obligation) (t *Term, err error) {
	defer func() {
		if r := recover(); r != nil {
			err = fmt.Errorf("%v", r)
		}
	}()
	e := g.E
	env := &SpecEnv{e: e, fr: e.entryFrame, st: e.entry, bound: map[string]SV{}, cs: e.cs, pkg: e.pkg}
	for k, v := range g.ClassBound {
		env.bound[k] = v
	}
	if o != nil && o.Env != nil {
		cp := *o.Env
		env = &cp
		env.expandFn = false
	}
	var alts []*Term
	for _, f := range fds {
		src := f.Class
		if fc, ok := e.cs.Classes[src]; ok {
			alts = append(alts, scal(env.eval(fc.Expr)))
			continue
		}
		alts = append(alts, scal(env.eval(parseSpecExpr(src))))
	}
	return or(alts...), nil
}

var _ = path.Match

package main

// Deterministic iteration orders: fresh symbols are numbered in creation order and assumptions are emitted in
// creation order, so every loop that creates either must not follow Go's randomised map order — otherwise two runs on
// the same tree produce different (if equivalent) scripts and the solvers' running times vary.

import (
	"sort"

	"golang.org/x/tools/go/ssa"
)

func sortedHeapKeys(m map[string]*Term) []string {
	ks := make([]string, 0, len(m))
	for k := range m {
		ks = append(ks, k)
	}
	sort.Strings(ks)
	return ks
}

func sortedGhostKeys(m map[string]SV) []string {
	ks := make([]string, 0, len(m))
	for k := range m {
		ks = append(ks, k)
	}
	sort.Strings(ks)
	return ks
}

func sortedBoolKeys(m map[string]bool) []string {
	ks := make([]string, 0, len(m))
	for k := range m {
		ks = append(ks, k)
	}
	sort.Strings(ks)
	return ks
}

func sortedAllocs(m map[*ssa.Alloc]bool) []*ssa.Alloc {
	as := make([]*ssa.Alloc, 0, len(m))
	for a := range m {
		as = append(as, a)
	}
	sort.SliceStable(as, func(i, j int) bool {
		if as[i].Pos() != as[j].Pos() {
			return as[i].Pos() < as[j].Pos()
		}
		if as[i].Comment != as[j].Comment {
			return as[i].Comment < as[j].Comment
		}
		return as[i].Name() < as[j].Name()
	})
	return as
}

func sortedCellKeys(m map[*ssa.Alloc]SV) []*ssa.Alloc {
	b := map[*ssa.Alloc]bool{}
	for a := range m {
		b[a] = true
	}
	return sortedAllocs(b)
}

package main

import (
	"fmt"
	"go/ast"
	"go/types"
	"os"
	"path/filepath"
	"sort"
	"strconv"
	"strings"

	"golang.org/x/tools/go/packages"
	"golang.org/x/tools/go/ssa"
	"golang.org/x/tools/go/ssa/ssautil"
)

const modPath = "github.com/cube2222/octosql"

// World is everything loaded from /repo's working tree for one run.
type World struct {
	Prog     *ssa.Program
	Pkgs     map[string]*packages.Package // by import path (all, transitively)
	Roots    []*packages.Package
	SSA      map[string]*ssa.Package
	CS       *Contracts
	RepoDir  string
	CFiles   []string // contract files read
	bySyntax map[ast.Node]*ssa.Function
	descByPath map[string]*ssa.Function
	descSel    map[*ssa.Function]string
}

func repoDir() string {
	if d := os.Getenv("GOVC_REPO"); d != "" {
		return d
	}
	return "/repo"
}

// loadWorld type-checks the named packages (patterns relative to the repo, e.g. "./execution/...") with
// the build tag verif and builds naive-form SSA for them and all their dependencies.
func loadWorld(patterns []string) (*World, error) {
	dir := repoDir()
	env := append(os.Environ(), "GOFLAGS=-mod=mod", "GOPROXY=off", "GOSUMDB=off", "GOTOOLCHAIN=local")
	cfg := &packages.Config{Mode: packages.LoadAllSyntax, Dir: dir, BuildFlags: []string{"-tags=verif"}, Env: env}
	pkgs, err := packages.Load(cfg, patterns...)
	if err != nil {
		return nil, err
	}
	var errs []string
	packages.Visit(pkgs, nil, func(p *packages.Package) {
		if strings.HasPrefix(p.PkgPath, modPath) {
			for _, e := range p.Errors {
				errs = append(errs, e.Error())
			}
		}
	})
	if len(errs) > 0 {
		return nil, fmt.Errorf("the tree does not type-check:\n  %s", strings.Join(errs, "\n  "))
	}
	prog, _ := ssautil.AllPackages(pkgs, ssa.NaiveForm|ssa.GlobalDebug|ssa.InstantiateGenerics)
	prog.Build()
	w := &World{Prog: prog, Pkgs: map[string]*packages.Package{}, Roots: pkgs, SSA: map[string]*ssa.Package{}, RepoDir: dir, bySyntax: map[ast.Node]*ssa.Function{}}
	packages.Visit(pkgs, nil, func(p *packages.Package) {
		w.Pkgs[p.PkgPath] = p
		if sp := prog.Package(p.Types); sp != nil {
			w.SSA[p.PkgPath] = sp
		}
	})
	// contract files: zz_verif_contracts.go in every loaded package directory of the module (comment-only,
	// tag verif) plus extern/spec files under /verif/specs
	w.CS = newContracts()
	var paths []string
	for path := range w.Pkgs {
		if strings.HasPrefix(path, modPath) {
			paths = append(paths, path)
		}
	}
	sort.Strings(paths)
	for _, path := range paths {
		p := w.Pkgs[path]
		rel := strings.TrimPrefix(strings.TrimPrefix(path, modPath), "/")
		f := filepath.Join(dir, rel, "zz_verif_contracts.go")
		data, err := os.ReadFile(f)
		if err != nil {
			continue
		}
		w.CFiles = append(w.CFiles, f)
		if err := w.CS.parseFile(string(data), p.Types, f); err != nil {
			return nil, err
		}
	}
	// every contract must bind to a function of its package
	for _, key := range w.CS.Order {
		c := w.CS.Funcs[key]
		sp := w.SSA[c.Pkg.Path()]
		if sp == nil {
			continue
		}
		if _, err := w.resolve(sp, c.Selector); err != nil {
			return nil, fmt.Errorf("%s: contract does not bind: %v", c.File, err)
		}
	}
	return w, nil
}

func (w *World) pkgByName(name string) (*ssa.Package, *packages.Package) {
	// name may be an import path suffix ("execution/nodes") or a bare package name
	var best string
	for path := range w.SSA {
		if !strings.HasPrefix(path, modPath) {
			continue
		}
		if path == modPath+"/"+name || strings.HasSuffix(path, "/"+name) {
			if best == "" || len(path) < len(best) {
				best = path
			}
		}
	}
	if best == "" {
		return nil, nil
	}
	return w.SSA[best], w.Pkgs[best]
}

// resolve finds the SSA function for a contract selector inside a package:
//   Name | T.Method | (*T).Method, followed by any number of $litN (N-th function literal, source order, 1-based)
func (w *World) resolve(sp *ssa.Package, sel string) (*ssa.Function, error) {
	parts := strings.Split(sel, "$lit")
	head := parts[0]
	var fn *ssa.Function
	if strings.HasPrefix(head, "FunctionMap[") {
		// a descriptor closure addressed by its composite-literal path: FunctionMap["name"][i].Function
		w.indexDescriptors()
		fn = w.descByPath[head]
		if fn == nil {
			return nil, fmt.Errorf("descriptor %s does not bind", head)
		}
	} else if strings.HasPrefix(head, "(*") {
		i := strings.Index(head, ").")
		if i < 0 {
			return nil, fmt.Errorf("bad selector %q", sel)
		}
		tn, mn := head[2:i], head[i+2:]
		t := sp.Type(tn)
		if t == nil {
			return nil, fmt.Errorf("no type %s in %s", tn, sp.Pkg.Path())
		}
		fn = w.Prog.LookupMethod(types.NewPointer(t.Type()), sp.Pkg, mn)
	} else if i := strings.Index(head, "."); i >= 0 {
		tn, mn := head[:i], head[i+1:]
		t := sp.Type(tn)
		if t == nil {
			return nil, fmt.Errorf("no type %s in %s", tn, sp.Pkg.Path())
		}
		fn = w.Prog.LookupMethod(t.Type(), sp.Pkg, mn)
	} else {
		fn = sp.Func(head)
	}
	if fn == nil {
		return nil, fmt.Errorf("selector %q does not bind in %s", sel, sp.Pkg.Path())
	}
	for _, p := range parts[1:] {
		n, err := strconv.Atoi(p)
		if err != nil || n < 1 || n > len(fn.AnonFuncs) {
			return nil, fmt.Errorf("selector %q: literal %s does not bind (function has %d literals)", sel, p, len(fn.AnonFuncs))
		}
		fn = fn.AnonFuncs[n-1]
	}
	return fn, nil
}

// indexDescriptors maps every descriptor closure of functions.FunctionMap (and the literals nested in it) to its
// path selector, so that contracts and units can name them independently of their position in the file.
func (w *World) indexDescriptors() {
	if w.descByPath != nil {
		return
	}
	w.descByPath = map[string]*ssa.Function{}
	w.descSel = map[*ssa.Function]string{}
	sp, pp := w.pkgByName("functions")
	if sp == nil || sp.Func("FunctionMap") == nil {
		return
	}
	root := sp.Func("FunctionMap")
	for _, d := range findDescriptors(pp) {
		if d.Lit == nil {
			continue
		}
		fn := w.funcBySyntax(root, d.Lit)
		if fn == nil {
			continue
		}
		path := fmt.Sprintf("FunctionMap[%q][%d].Function", d.Name, d.Index)
		w.descByPath[path] = fn
		var walk func(f *ssa.Function, sel string)
		walk = func(f *ssa.Function, sel string) {
			w.descSel[f] = sel
			for i, a := range f.AnonFuncs {
				walk(a, fmt.Sprintf("%s$lit%d", sel, i+1))
			}
		}
		walk(fn, path)
	}
}

func (w *World) funcBySyntax(root *ssa.Function, n ast.Node) *ssa.Function {
	if len(w.bySyntax) == 0 || w.bySyntax[n] == nil {
		var anon []*ssa.Function
		allAnon(root, &anon)
		for _, a := range anon {
			w.bySyntax[a.Syntax()] = a
		}
	}
	return w.bySyntax[n]
}

// selectorOf gives the contract selector of an SSA function (inverse of resolve), "" if not addressable.
func selectorOf(fn *ssa.Function) string {
	if fn.Parent() != nil {
		p := selectorOf(fn.Parent())
		for i, a := range fn.Parent().AnonFuncs {
			if a == fn {
				return fmt.Sprintf("%s$lit%d", p, i+1)
			}
		}
		return ""
	}
	if recv := fn.Signature.Recv(); recv != nil {
		t := recv.Type()
		if pt, ok := t.(*types.Pointer); ok {
			if n, ok := pt.Elem().(*types.Named); ok {
				return "(*" + n.Obj().Name() + ")." + fn.Name()
			}
		}
		if n, ok := t.(*types.Named); ok {
			return n.Obj().Name() + "." + fn.Name()
		}
	}
	return fn.Name()
}

func pkgShort(p *types.Package) string {
	return strings.TrimPrefix(strings.TrimPrefix(p.Path(), modPath), "/")
}

package main

func (w *World) genLemmaUnit(us *UnitSpec) *GenUnit {
	return &GenUnit{Name: us.Pkg + ".lemma." + us.Sel, Err: "lemma units not implemented yet"}
}

package main

import (
	"fmt"
	"go/ast"
	"go/token"
	"sort"
	"strings"

	"golang.org/x/tools/go/ssa"
)

// Expansion is the symbolic summary of one call of a real function, obtained by executing its SSA.
type Expansion struct {
	Fn    *ssa.Function
	Vals  []SV
	Final *BState
}

func (ex *Expansion) local(name string, k int) SV {
	var cells []*ssa.Alloc
	for _, b := range ex.Fn.Blocks {
		for _, ins := range b.Instrs {
			if a, ok := ins.(*ssa.Alloc); ok && a.Comment == name {
				cells = append(cells, a)
			}
		}
	}
	sort.Slice(cells, func(i, j int) bool { return cells[i].Pos() < cells[j].Pos() })
	if k < 1 || k > len(cells) {
		panic(fmt.Sprintf("spec: exit(): %s has %d variables named %s", ex.Fn.Name(), len(cells), name))
	}
	v, ok := ex.Final.cells[cells[k-1]]
	if !ok {
		panic(fmt.Sprintf("spec: exit(): variable %s #%d of %s is not reachable in this case", name, k, ex.Fn.Name()))
	}
	return v
}

func expansionKey(fn *ssa.Function, args []SV) string {
	var sb strings.Builder
	sb.WriteString(fn.String())
	for _, a := range args {
		var ls []*Term
		leaves(a, &ls)
		for _, l := range ls {
			fmt.Fprintf(&sb, " %d", l.id)
		}
	}
	return sb.String()
}

// specCall: a real function called from a contract expression.
func (e *Exec) specCall(env *SpecEnv, fn *ssa.Function, args []SV) SV {
	if !env.expandFn {
		// by contract (requires are not re-checked here: the expression is a specification, not code)
		ct := e.contractOf(fn)
		if ct == nil {
			panic("spec: call of " + fn.Name() + " which has no contract")
		}
		cf := &Frame{fn: fn, regs: map[ssa.Value]SV{}, contractOnly: true}
		for i, p := range fn.Params {
			cf.regs[p] = args[i]
		}
		// arguments that mention a quantified variable: the call denotes the function's defining spec term itself
		// (`defines result == f(params)`); no facts can be asserted about a bound variable outside its quantifier
		anyBound := false
		for _, a := range args {
			var ls []*Term
			leaves(a, &ls)
			for _, t := range ls {
				if hasBound(t) {
					anyBound = true
				}
			}
		}
		if anyBound {
			for _, d := range ct.Defines {
				if be, ok := d.Expr.(*ast.BinaryExpr); ok && be.Op == token.EQL {
					if id, ok := be.X.(*ast.Ident); ok && id.Name == "result" {
						denv := &SpecEnv{e: e, fr: cf, st: env.st, bound: map[string]SV{}, cs: e.cs, pkg: ct.Pkg, unfold: 1}
						return denv.eval(be.Y)
					}
				}
			}
			panic("spec: call of " + fn.Name() + " under a quantifier needs a `defines result == ...` clause")
		}
		results := fn.Signature.Results()
		var rs []SV
		for i := 0; i < results.Len(); i++ {
			rs = append(rs, e.freshSV(results.At(i).Type(), "spec."+fn.Name(), tTrue, false))
		}
		post := &SpecEnv{e: e, fr: cf, st: env.st, bound: map[string]SV{}, cs: e.cs, pkg: ct.Pkg, oldSt: env.st, oldFr: cf}
		for k, v := range rs {
			post.bound[fmt.Sprintf("result%d", k)] = v
		}
		if len(rs) > 0 {
			post.bound["result"] = rs[0]
		}
		for _, en := range append(append([]Clause{}, ct.Ensures...), ct.Defines...) {
			e.assume(scal(post.eval(en.Expr)))
		}
		if len(rs) == 1 {
			return rs[0]
		}
		return &TupleV{Elems: rs}
	}
	ex := e.expand(env, fn, args)
	if len(ex.Vals) == 1 {
		return ex.Vals[0]
	}
	return &TupleV{Elems: ex.Vals}
}

// expand executes the SSA of fn on args (memoised per argument terms). Obligations inside the body are proved in the
// function's own unit and are only assumed here; the callee's requires are obligations of the lemma. The summary
// describes the terminating execution (some return is reached) — sound together with the function's termination.
func (e *Exec) expand(env *SpecEnv, fn *ssa.Function, args []SV) *Expansion {
	key := expansionKey(fn, args)
	if e.touched != nil {
		e.touched[key] = true
	}
	if ex, ok := e.expansions[key]; ok {
		return ex
	}
	segLo := len(e.assumes)
	defer func() { e.segments[key] = [2]int{segLo, len(e.assumes)} }()
	if e.segments == nil {
		e.segments = map[string][2]int{}
	}
	if e.expansions == nil {
		e.expansions = map[string]*Expansion{}
	}
	if ct := e.contractOf(fn); ct != nil {
		cf := &Frame{fn: fn, regs: map[ssa.Value]SV{}, contractOnly: true}
		for i, p := range fn.Params {
			cf.regs[p] = args[i]
		}
		renv := &SpecEnv{e: e, fr: cf, st: env.st, bound: map[string]SV{}, cs: e.cs, pkg: ct.Pkg}
		for i, r := range ct.Requires {
			e.obligeNamed(env.st, fmt.Sprintf("expand.%s.%s", selectorOf(fn), clauseLabel(r, "requires", i)), fn.Pos(), scal(renv.evalGoal(r.Expr)))
		}
	}
	e.quiet++
	saved := e.lastFrame
	vals, out := e.run(fn, env.st.clone(), args, nil, 1)
	e.lastFrame = saved
	e.quiet--
	if vals == nil {
		panic("spec: expansion of " + fn.Name() + " has no return")
	}
	e.assume(out.reach)
	ex := &Expansion{Fn: fn, Vals: vals, Final: out}
	e.expansions[key] = ex
	e.note("lemma expands the SSA of " + fn.String() + " (termination of its loops and recursion is assumed: values are finite trees)")
	return ex
}

func (env *SpecEnv) expansionOf(x ast.Expr) *Expansion {
	call, ok := x.(*ast.CallExpr)
	if !ok {
		panic("spec: exit() needs a call expression")
	}
	sub := *env
	sub.expandFn = true
	sub.eval(call) // make sure it is expanded
	// recompute the key
	var fn *ssa.Function
	var args []SV
	switch f := call.Fun.(type) {
	case *ast.SelectorExpr:
		recv := env.eval(f.X)
		args = append(args, recv)
		for _, ex := range env.e.expansions {
			if ex.Fn.Name() == f.Sel.Name {
				fn = ex.Fn
			}
		}
	case *ast.Ident:
		for _, ex := range env.e.expansions {
			if ex.Fn.Name() == f.Name {
				fn = ex.Fn
			}
		}
	}
	if fn == nil {
		panic("spec: exit(): no expansion found")
	}
	for _, a := range call.Args {
		args = append(args, env.eval(a))
	}
	env.e.coerceArgs(fn, args)
	ex := env.e.expansions[expansionKey(fn, args)]
	if ex == nil {
		panic("spec: exit(): expansion not found for these arguments")
	}
	return ex
}

// genLemmaUnits: a lemma is a relational obligation over calls of real functions. Parameters are arbitrary (sane)
// values; requires are assumed; each ensures (per case) is one obligation. `use L(args)` assumes an instance of
// lemma L (requires ==> ensures) with real calls taken by contract; instances of the lemma itself are the induction
// hypothesis and must be applied to elements of the parameters (structurally smaller values).
// Every case is generated on its own: a case of the form `p.F == <int literal>` is applied by substitution, so the
// expansion of the real function folds to the arms that case can reach.
func (w *World) genLemmaUnits(us *UnitSpec) []*GenUnit {
	short := us.Pkg
	if i := strings.LastIndex(short, "/"); i >= 0 {
		short = short[i+1:]
	}
	base := short + ".lemma." + us.Sel
	lm := w.CS.Lemmas[us.Sel]
	if lm == nil {
		return []*GenUnit{{Name: base, Err: "no lemma " + us.Sel + " in the contract files"}}
	}
	cases := lm.Cases
	if len(cases) == 0 {
		cases = []Clause{{Name: "", Expr: nil}}
	}
	var out []*GenUnit
	for _, c := range cases {
		out = append(out, w.genLemmaCase(lm, base, c))
	}
	return out
}

type substT struct {
	param, field string
	lit          *Term
}

// caseSubsts splits a case condition into substitutable conjuncts `param.Field == literal` and the rest.
func caseSubsts(x ast.Expr, subs *[]substT, rest *[]ast.Expr) {
	switch n := x.(type) {
	case *ast.ParenExpr:
		caseSubsts(n.X, subs, rest)
		return
	case *ast.BinaryExpr:
		if n.Op == token.LAND {
			caseSubsts(n.X, subs, rest)
			caseSubsts(n.Y, subs, rest)
			return
		}
		if n.Op == token.EQL {
			if se, ok := n.X.(*ast.SelectorExpr); ok {
				if id, ok := se.X.(*ast.Ident); ok {
					if bl, ok := n.Y.(*ast.BasicLit); ok && bl.Kind == token.INT {
						*subs = append(*subs, substT{id.Name, se.Sel.Name, bigLit(bl.Value)})
						return
					}
				}
			}
		}
	}
	*rest = append(*rest, x)
}

func (w *World) genLemmaCase(lm *Lemma, base string, c Clause) (g *GenUnit) {
	name := base
	suffix := ""
	if c.Expr != nil {
		suffix = "[" + c.Name + "]"
	}
	g = &GenUnit{Name: name + suffix}
	e := newExec(base, w.Prog.Fset)
	g.E = e
	e.cs = w.CS
	e.w = w
	e.pkg = lm.Pkg
	e.contracts = map[*ssa.Function]*FuncContract{}
	defer func() {
		if r := recover(); r != nil {
			g.Err = fmt.Sprint(r)
		}
	}()
	resetRunGlobals()
	st := newState()
	e.frontier(st)
	bound := map[string]SV{}
	var subs []substT
	var rest []ast.Expr
	if c.Expr != nil {
		caseSubsts(c.Expr, &subs, &rest)
	}
	for i, p := range lm.Params {
		t, err := resolveTypeString(lm.Pkg, lm.PTypes[i])
		if err != nil {
			panic("lemma " + lm.Name + ": " + err.Error())
		}
		sv := e.freshSV(t, p, tTrue, true)
		for si := range subs {
			if subs[si].param != p {
				continue
			}
			stt := structOf(t)
			done := false
			if sv2, ok := sv.(*StructV); ok && stt != nil {
				for fi := 0; fi < stt.NumFields(); fi++ {
					if stt.Field(fi).Name() == subs[si].field {
						if sc, ok := sv2.Fields[fi].(*Scalar); ok && sc.T.Sort == SInt {
							sv2.Fields[fi] = &Scalar{T: subs[si].lit, Ty: sc.Ty}
							done = true
						}
					}
				}
			}
			if !done {
				panic("case " + c.Name + ": cannot substitute " + p + "." + subs[si].field)
			}
		}
		e.saneInput(st, t, sv, tTrue)
		bound[p] = sv
		e.inputSVs = append(e.inputSVs, NamedInput{p, t, sv})
	}
	g.ClassBound = bound
	fr0 := &Frame{regs: map[ssa.Value]SV{}}
	e.entry = st.clone()
	e.entryFrame = fr0
	mkEnv := func(expand bool) *SpecEnv {
		b := map[string]SV{}
		for k, v := range bound {
			b[k] = v
		}
		return &SpecEnv{e: e, fr: fr0, st: st, bound: b, cs: w.CS, pkg: lm.Pkg, expandFn: expand}
	}
	for _, r := range lm.Requires {
		e.assume(scal(mkEnv(true).eval(r.Expr))) // real calls in a requires are expanded too (their facts are needed)
	}
	cond := tTrue
	for _, r := range rest {
		cond = and(cond, scal(mkEnv(false).eval(r)))
	}
	// goals first: evaluating them expands the real functions and fixes the exit indices the uses refer to
	type goal struct {
		label   string
		t       *Term
		touched map[string]bool
		lo, hi  int // assumptions made while evaluating the goal (its expansions, unfoldings of spec functions)
	}
	baseN := len(e.assumes)
	var goals []goal
	for i, en := range lm.Ensures {
		e.touched = map[string]bool{}
		lo := len(e.assumes)
		t := scal(mkEnv(true).evalGoal(en.Expr))
		goals = append(goals, goal{clauseLabel(en, "ensures", i), t, e.touched, lo, len(e.assumes)})
	}
	e.lemmaLocal = e.goalLocal
	e.goalLocal = nil
	// use clauses: unlabelled instances serve every case, an instance labelled with a case name only that case;
	// an instance is given to a goal only if the expansions it talks about (exit indices) are the goal's own
	type useT struct {
		t       *Term
		touched map[string]bool
		lo, hi  int // assumptions made while building the instance (definitions of by-contract call results)
	}
	var uses []useT
	for _, u := range lm.Uses {
		if u.Name != "" && u.Name != c.Name {
			continue
		}
		e.touched = map[string]bool{}
		lo := len(e.assumes)
		t := w.lemmaInstance(e, lm, mkEnv(true), u)
		uses = append(uses, useT{t, e.touched, lo, len(e.assumes)})
	}
	e.touched = nil
	subset := func(a, b map[string]bool) bool {
		for k := range a {
			if !b[k] {
				return false
			}
		}
		return true
	}
	cs := st.clone()
	cs.reach = cond
	for _, gl := range goals {
		as := append([]*Term{}, e.assumes[:baseN]...)
		var keys []string
		for k := range gl.touched {
			keys = append(keys, k)
		}
		sort.Strings(keys)
		for _, k := range keys {
			seg := e.segments[k]
			if seg[0] >= gl.lo && seg[1] <= gl.hi {
				continue // inside the goal's own range, added below
			}
			as = append(as, e.assumes[seg[0]:seg[1]]...)
		}
		as = append(as, e.assumes[gl.lo:gl.hi]...)
		for _, u := range uses {
			if subset(u.touched, gl.touched) {
				as = append(as, e.assumes[u.lo:u.hi]...)
				as = append(as, u.t)
			}
		}
		as = append(as, e.lemmaLocal...)
		e.obligeCase(cs, gl.label+suffix, gl.t, as)
	}
	g.Canary = tTrue
	return g
}

// obligeCase emits an obligation without assuming it afterwards (cases are independent).
func (e *Exec) obligeCase(st *BState, name string, cond *Term, assumps []*Term) {
	goal := implies(st.reach, cond)
	if goal == tTrue {
		e.trivial = append(e.trivial, e.base+"/"+name)
		return
	}
	e.obls = append(e.obls, &Obligation{Name: e.base + "/" + name, Kind: name, Cond: goal, NAssum: len(e.assumes), Explicit: true, Assumps: assumps})
}

// lemmaInstance builds (requires ==> ensures) of the lemma named in a use clause, for the given arguments.
func (w *World) lemmaInstance(e *Exec, cur *Lemma, env *SpecEnv, u Clause) *Term {
	call, ok := u.Expr.(*ast.CallExpr)
	if !ok {
		// a plain fact: only allowed when it is a call of a lemma
		panic("use clause must be a lemma instance: " + u.Src)
	}
	name := call.Fun.(*ast.Ident).Name
	lm := w.CS.Lemmas[name]
	if lm == nil {
		panic("use of unknown lemma " + name)
	}
	if len(call.Args) != len(lm.Params) {
		panic("use " + name + ": wrong number of arguments")
	}
	// well-foundedness of (mutually) recursive lemma uses, by a syntactic criterion: structured arguments must be
	// sub-terms of the current lemma's parameters (never larger); a use of the lemma itself or of a lemma declared
	// later must strictly decrease (an element of a parameter, or an int parameter p replaced by p-1 with 0 <= p
	// required). Any cycle of uses then contains a strict step and no increasing step.
	strict := false
	for i, a := range call.Args {
		kind := classifyArg(a, cur, lm, i)
		switch kind {
		case "scalar", "sub":
		case "strict":
			strict = true
		default:
			panic("use " + name + ": argument " + fmt.Sprint(i+1) + " is not a sub-term of the lemma's parameters: " + u.Src)
		}
	}
	if w.CS.lemmaIndex(name) >= w.CS.lemmaIndex(cur.Name) && !strict {
		panic("use " + name + ": a use of the lemma itself (or of a later lemma) needs a strictly smaller argument: " + u.Src)
	}
	sub := &SpecEnv{e: e, fr: env.fr, st: env.st, bound: map[string]SV{}, cs: w.CS, pkg: lm.Pkg, expandFn: false, unfold: 1}
	for i, p := range lm.Params {
		sub.bound[p] = env.eval(call.Args[i])
	}
	var req, ens []*Term
	for _, r := range lm.Requires {
		req = append(req, scal(sub.eval(r.Expr)))
	}
	for _, en := range lm.Ensures {
		ens = append(ens, scal(sub.eval(en.Expr)))
	}
	return implies(and(req...), and(ens...))
}

func (cs *Contracts) lemmaIndex(name string) int {
	for i, n := range cs.LemmaOrder {
		if n == name {
			return i
		}
	}
	return -1
}

func lemmaParamType(lm *Lemma, name string) string {
	for i, p := range lm.Params {
		if p == name {
			return lm.PTypes[i]
		}
	}
	return ""
}

func isBasicTypeName(t string) bool {
	switch t {
	case "int", "int64", "uint64", "bool", "string", "float64", "uint", "int32":
		return true
	}
	return false
}

// classifyArg: "scalar" (basic-typed target parameter: any expression), "sub" (parameter or field chain of one),
// "strict" (contains an element access, or is p-1 for an int parameter p with 0 <= p required), "" otherwise.
func classifyArg(x ast.Expr, cur, target *Lemma, pos int) string {
	if pos < len(target.PTypes) && isBasicTypeName(target.PTypes[pos]) {
		// p - 1 for an int parameter of the current lemma that is required to be non-negative
		if be, ok := x.(*ast.BinaryExpr); ok && be.Op == token.SUB {
			if id, ok := be.X.(*ast.Ident); ok && lemmaParamType(cur, id.Name) == "int" {
				if bl, ok := be.Y.(*ast.BasicLit); ok && bl.Value == "1" {
					for _, r := range cur.Requires {
						if strings.Contains(strings.ReplaceAll(r.Src, " ", ""), "0<="+id.Name) {
							return "strict"
						}
					}
				}
			}
		}
		return "scalar"
	}
	strict := false
	for {
		switch n := x.(type) {
		case *ast.ParenExpr:
			x = n.X
			continue
		case *ast.IndexExpr:
			strict = true
			x = n.X
			continue
		case *ast.SelectorExpr:
			x = n.X
			continue
		case *ast.CallExpr:
			// deref(q): the object a pointer component points to — a strictly smaller part of a finite tree
			if id, ok := n.Fun.(*ast.Ident); ok && id.Name == "deref" && len(n.Args) == 1 {
				strict = true
				x = n.Args[0]
				continue
			}
			return ""
		case *ast.Ident:
			if lemmaParamType(cur, n.Name) != "" {
				if strict {
					return "strict"
				}
				return "sub"
			}
			return ""
		}
		return ""
	}
}

// isElementOfParam: X.List[i] / X.Struct[i] / X.Tuple[i] (or a slice parameter's element s[i]) for a parameter X.
func isElementOfParam(x ast.Expr, lm *Lemma) bool {
	ix, ok := x.(*ast.IndexExpr)
	if !ok {
		return false
	}
	isParam := func(e ast.Expr) bool {
		id, ok := e.(*ast.Ident)
		if !ok {
			return false
		}
		for _, p := range lm.Params {
			if p == id.Name {
				return true
			}
		}
		return false
	}
	switch b := ix.X.(type) {
	case *ast.SelectorExpr:
		return isParam(b.X) && (b.Sel.Name == "List" || b.Sel.Name == "Struct" || b.Sel.Name == "Tuple")
	case *ast.Ident:
		return isParam(b)
	}
	return false
}

package main

// Ground instantiation helper. Obligations whose proof needs a quantified assumption (a loop invariant, a callee's
// quantified postcondition) instantiated at one particular index are where the solvers' E-matching is unstable: the
// same goal is decided in a second with one seed and not at all with another. This pass makes the two standard
// moves by hand, both sound:
//   * the goal's positive universal quantifiers are skolemised (proving the body for a fresh constant proves it for all);
//   * every bounded-integer quantifier in an assumption is instantiated at a small set of candidate terms (the skolem
//     constants, the bounds of the quantifier ranges in play) — instances of assumptions are consequences of them.
// The result is offered to the solvers as one more script (the original assumptions stay in it).

import (
	"fmt"
	"os"
	"strings"
)

var skolemCount int

// classSkolems: skolem constants that stand for a key class (their quantifier had no range guard) rather than an index
var classSkolems = map[*Term]bool{}

// isRanged: the quantified variable is guarded by a range (an index quantifier); otherwise it ranges over key classes
func isRanged(body, x *Term) bool {
	if body.Op != "=>" || len(body.Args) != 2 {
		return false
	}
	g := body.Args[0]
	gs := []*Term{g}
	if g.Op == "and" {
		gs = g.Args
	}
	lo, hi := false, false
	for _, c := range gs {
		if len(c.Args) == 2 && (c.Op == "<=" || c.Op == "<") {
			if c.Args[1] == x && !hasBound(c.Args[0]) {
				lo = true
			}
			if c.Args[0] == x && !hasBound(c.Args[1]) {
				hi = true
			}
		}
	}
	return lo && hi
}

func isQuant(t *Term, op string) bool {
	return t.Op == op && len(t.Args) == 2 && t.Args[0].Sort == "binder"
}

// binderVar parses "((name Sort))" of a single-variable binder.
func binderVar(b *Term) (*Term, bool) {
	if !strings.HasPrefix(b.Op, "((") || !strings.HasSuffix(b.Op, " Int))") || strings.Contains(b.Op, ") (") {
		return nil, false
	}
	name := strings.TrimSuffix(strings.TrimPrefix(b.Op, "(("), " Int))")
	if strings.ContainsAny(name, " ()") {
		return nil, false
	}
	return mk(SInt, name), true
}

func substVar(t, v, r *Term, memo map[*Term]*Term) *Term {
	if t == v {
		return r
	}
	if len(t.Args) == 0 {
		return t
	}
	if m, ok := memo[t]; ok {
		return m
	}
	changed := false
	args := make([]*Term, len(t.Args))
	for i, a := range t.Args {
		args[i] = substVar(a, v, r, memo)
		if args[i] != a {
			changed = true
		}
	}
	res := t
	if changed {
		res = mk(t.Sort, t.Op, args...)
	}
	memo[t] = res
	return res
}

// skolemise replaces the universal quantifiers in positive position of a goal by fresh constants.
func skolemiseOld(goal *Term, sk *[]*Term) *Term {
	switch {
	case goal.Op == "=>" && len(goal.Args) == 2:
		b := skolemise(goal.Args[1], sk)
		if b == goal.Args[1] {
			return goal
		}
		return mk(SBool, "=>", goal.Args[0], b)
	case goal.Op == "and":
		changed := false
		args := make([]*Term, len(goal.Args))
		for i, a := range goal.Args {
			args[i] = skolemise(a, sk)
			if args[i] != a {
				changed = true
			}
		}
		if !changed {
			return goal
		}
		return mk(SBool, "and", args...)
	case isQuant(goal, "forall"):
		v, ok := binderVar(goal.Args[0])
		if !ok || v.Sort != SInt {
			return goal
		}
		skolemCount++
		c := konst(fmt.Sprintf("sk!%d", skolemCount), SInt)
		*sk = append(*sk, c)
		if !isRanged(goal.Args[1], v) {
			classSkolems[c] = true
		}
		return skolemise(substVar(goal.Args[1], v, c, map[*Term]*Term{}), sk)
	}
	return goal
}

// skolemise: the negated goal is an assumption; its quantifiers that are existential in effect — the goal's universal
// quantifiers in positive position and its existential ones in negative position (under an antecedent) — become
// fresh constants.
func skolemise(goal *Term, sk *[]*Term) *Term {
	return not(skolemPolar(not(goal), true, sk))
}

// rangeBounds: for a body (=> (and .. (<= lo x) .. (< x hi) ..) B) the ground bounds of x.
func rangeBounds(body, x *Term, out *[]*Term) {
	if body.Op != "=>" || len(body.Args) != 2 {
		return
	}
	g := body.Args[0]
	gs := []*Term{g}
	if g.Op == "and" {
		gs = g.Args
	}
	for _, c := range gs {
		if len(c.Args) != 2 {
			continue
		}
		switch {
		case (c.Op == "<=" || c.Op == "<") && c.Args[1] == x && !hasBound(c.Args[0]):
			*out = append(*out, c.Args[0])
		case (c.Op == "<=" || c.Op == "<") && c.Args[0] == x && !hasBound(c.Args[1]):
			hi := c.Args[1]
			*out = append(*out, hi)
			if hi.Op == "+" && len(hi.Args) == 2 && isLit(hi.Args[1], "1") {
				*out = append(*out, hi.Args[0])
			} else if c.Op == "<" {
				*out = append(*out, sub(hi, intLit(1)))
			}
		}
	}
}

func collectBounds(t *Term, seen map[*Term]bool, out *[]*Term) {
	if seen[t] {
		return
	}
	seen[t] = true
	if isQuant(t, "forall") || isQuant(t, "exists") {
		if v, ok := binderVar(t.Args[0]); ok && v.Sort == SInt {
			rangeBounds(t.Args[1], v, out)
			if t.Op == "exists" && t.Args[1].Op == "and" {
				rangeBounds(mk(SBool, "=>", t.Args[1], tTrue), v, out)
			}
		}
	}
	for _, a := range t.Args {
		collectBounds(a, seen, out)
	}
}

// classCands: which candidates are key classes (set by groundScript; nil = no distinction)
var classCands map[*Term]bool

// instances of the bounded universal quantifiers in positive position of an assumption, at the candidate terms.
func instantiate(a *Term, guards []*Term, cands []*Term, depth int, out *[]*Term, budget *int) {
	if *budget <= 0 {
		return
	}
	switch {
	case a.Op == "=>" && len(a.Args) == 2:
		instantiate(a.Args[1], append(append([]*Term{}, guards...), a.Args[0]), cands, depth, out, budget)
	case a.Op == "and":
		for _, c := range a.Args {
			instantiate(c, guards, cands, depth, out, budget)
		}
	case isQuant(a, "forall"):
		v, ok := binderVar(a.Args[0])
		if !ok || v.Sort != SInt {
			return
		}
		ranged := isRanged(a.Args[1], v)
		for _, c := range cands {
			if *budget <= 0 {
				return
			}
			if classCands != nil && ranged == classCands[c] {
				continue // index quantifiers take index candidates, class quantifiers class candidates
			}
			b := substVar(a.Args[1], v, c, map[*Term]*Term{})
			*budget--
			inst := b
			if len(guards) > 0 {
				inst = implies(and(guards...), b)
			}
			if !hasQuantPos(b) {
				*out = append(*out, inst)
			} else if depth > 0 {
				instantiate(b, guards, cands, depth-1, out, budget)
			}
		}
	}
}

// hasQuantPos: a forall in positive position (below =>-consequents and conjunctions only)
func hasQuantPos(t *Term) bool {
	switch {
	case isQuant(t, "forall"):
		return true
	case t.Op == "=>" && len(t.Args) == 2:
		return hasQuantPos(t.Args[1])
	case t.Op == "and":
		for _, a := range t.Args {
			if hasQuantPos(a) {
				return true
			}
		}
	}
	return false
}

// candidates: the skolem constants and their successors, then the range bounds of the goal, then those of the
// assumptions, most recent assumption first (the state the goal speaks about is described last).
func candidates(as []*Term, goal *Term, sk []*Term, max int) []*Term {
	cands := append([]*Term{}, sk...)
	for _, c := range sk {
		cands = append(cands, add(c, intLit(1)))
	}
	have := map[*Term]bool{}
	for _, c := range cands {
		have[c] = true
	}
	addAll := func(bs []*Term) {
		for _, b := range bs {
			if !have[b] && !hasBound(b) && len(cands) < max {
				have[b] = true
				cands = append(cands, b)
			}
		}
	}
	var gb []*Term
	collectBounds(goal, map[*Term]bool{}, &gb)
	addAll(gb)
	seen := map[*Term]bool{}
	for i := len(as) - 1; i >= 0; i-- {
		if hasBound(as[i]) {
			var bs []*Term
			collectBounds(as[i], seen, &bs)
			addAll(bs)
		}
	}
	return cands
}

// instantiatedScript: assumptions + ground instances, skolemised goal. Empty when there is nothing to instantiate.
func instantiatedScript(as []*Term, goal *Term) string {
	var sk []*Term
	g := skolemise(goal, &sk)
	cands := candidates(as, goal, sk, 20)
	if len(cands) == 0 {
		return ""
	}
	var insts []*Term
	budget := 400
	for _, a := range as {
		if hasBound(a) {
			instantiate(a, nil, cands, 1, &insts, &budget)
		}
	}
	if len(insts) == 0 && len(sk) == 0 {
		return ""
	}
	return script(append(append([]*Term{}, as...), insts...), g, nil)
}

// groundScript: like instantiatedScript, but the quantified assumptions themselves are left out — only their
// quantifier-free parts and the ground instances remain (plus axioms that carry an explicit pattern). Fewer
// assumptions, so unsat is still a proof; without quantifiers to instantiate the solvers answer at once.
func groundScript(as []*Term, goal *Term) string {
	instReadsDone = map[[2]*Term]bool{}
	// (=> A C) under the assumptions is C under the assumptions and A: the antecedents (path condition, the
	// antecedent of a conditional postcondition) are treated like every other assumption — instantiated, skolemised
	for goal.Op == "=>" && len(goal.Args) == 2 {
		a := goal.Args[0]
		if a.Op == "and" {
			as = append(append([]*Term{}, as...), a.Args...)
		} else {
			as = append(append([]*Term{}, as...), a)
		}
		goal = goal.Args[1]
	}
	var sk []*Term
	g := skolemise(goal, &sk)
	cands := candidates(as, goal, sk, 20)
	classCands = map[*Term]bool{}
	defer func() { classCands = nil }()
	for _, c := range sk {
		if classSkolems[c] {
			classCands[c] = true
			classCands[add(c, intLit(1))] = true
		}
	}
	// key-class terms: ground indices into the per-container membership arrays, in the goal and the ground assumptions
	var kc []*Term
	seenK := map[*Term]bool{}
	collectClassTerms(g, seenK, &kc)
	for i := len(as) - 1; i >= 0 && len(kc) < 10; i-- {
		if !hasBound(as[i]) {
			collectClassTerms(as[i], seenK, &kc)
		}
	}
	for _, c := range kc {
		if len(kc) > 10 {
			kc = kc[:10]
		}
		if !classCands[c] {
			classCands[c] = true
			cands = append(cands, c)
		}
	}
	var ground []*Term // quantifier-free parts of the assumptions (and pattern-carrying axioms)
	var quant []*Term  // assumptions with quantifiers
	{
		// quantifiers that are existential in effect become constants (and candidates) first
		var consts []*Term
		as2 := make([]*Term, len(as))
		for i, a := range as {
			if hasBound(a) && !hasPattern(a) {
				as2[i] = skolemPolar(a, true, &consts)
			} else {
				as2[i] = a
			}
		}
		as = as2
		if len(consts) <= 24 {
			for _, c := range consts {
				if classSkolems[c] {
					classCands[c] = true
				}
				cands = append(cands, c)
				sk = append(sk, c)
			}
		}
	}
	for _, a := range as {
		switch {
		case !hasBound(a):
			ground = append(ground, a)
		case hasPattern(a):
			ground = append(ground, a)
		default:
			if r := stripQuant(a); r != tTrue {
				ground = append(ground, r)
			}
			quant = append(quant, a)
		}
	}
	// round 1: instances at the candidates; existentials they assert become witnesses (fresh constants)
	var insts []*Term
	total := 2500
	var wit []*Term
	for qi := len(quant) - 1; qi >= 0 && total > 0; qi-- { // newest first
		var is []*Term
		budget := 160
		instantiate(quant[qi], nil, cands, 1, &is, &budget)
		total -= len(is)
		for _, i := range is {
			if mentionsAny(i, sk) {
				// witnesses only for the instances about the goal's own skolem constants
				insts = append(insts, elimExists(i, &wit))
			} else {
				insts = append(insts, i)
			}
		}
	}
	// round 1b: key-class terms that first appear in the instances about the skolem constants (x[sk]'s class, ...)
	{
		var kc2 []*Term
		for _, i := range insts {
			if mentionsAny(i, sk) && !hasBound(i) {
				collectClassTerms(i, seenK, &kc2)
			}
		}
		if len(kc2) > 12 {
			kc2 = kc2[:12]
		}
		var fresh []*Term
		for _, c := range kc2 {
			if !classCands[c] {
				classCands[c] = true
				fresh = append(fresh, c)
			}
		}
		if len(fresh) > 0 {
			for qi := len(quant) - 1; qi >= 0; qi-- {
				b2 := 100
				var is []*Term
				instantiate(quant[qi], nil, fresh, 0, &is, &b2)
				insts = append(insts, is...)
			}
			cands = append(cands, fresh...)
		}
	}
	// round 1c: array axioms. A quantifier without a range guard whose variable indexes a ground array —
	// (forall p. ... (select A p) ...), the shape of the copy / append / frame axioms — is instantiated at the ground
	// indices at which A is read anywhere in the goal, the ground assumptions and the instances so far (twice: the
	// instances read further arrays).
	for round := 0; round < 2; round++ {
		reads := map[*Term][]*Term{}
		seenR := map[*Term]bool{}
		collectReads(g, seenR, reads)
		for _, a := range ground {
			collectReads(a, seenR, reads)
		}
		for _, a := range insts {
			collectReads(a, seenR, reads)
		}
		added := 0
		for qi := len(quant) - 1; qi >= 0 && added < addCap; qi-- {
			added += instantiateReads(quant[qi], nil, reads, &insts)
		}
		if added == 0 {
			break
		}
	}
	// round 2: the assumptions again at the witnesses (only instances that mention a witness are new)
	if len(wit) > 0 && len(wit) <= 48 {
		for qi := len(quant) - 1; qi >= 0; qi-- {
			var is []*Term
			b2 := 200
			instantiate(quant[qi], nil, wit, 0, &is, &b2)
			for _, i := range is {
				var w2 []*Term
				insts = append(insts, elimExists(i, &w2))
			}
		}
		cands = append(cands, wit...)
	}
	// an existential goal is proved by one of the candidates
	g = existsToCandidates(g, cands)
	return script(append(ground, insts...), g, nil)
}

// skolemPolar eliminates, in an assumption, the quantifiers that are existential in effect — exists in positive
// position, forall in negative position (under the antecedent of an implication or a negation) — by fresh constants.
// Sound for refutation: the result is equisatisfiable with the assumption in any context that does not mention the
// new constants.
func skolemPolar(t *Term, positive bool, consts *[]*Term) *Term {
	if !hasBound(t) {
		return t
	}
	switch {
	case t.Op == "=>" && len(t.Args) == 2:
		a := skolemPolar(t.Args[0], !positive, consts)
		b := skolemPolar(t.Args[1], positive, consts)
		if a == t.Args[0] && b == t.Args[1] {
			return t
		}
		return mk(SBool, "=>", a, b)
	case t.Op == "and" || t.Op == "or":
		changed := false
		args := make([]*Term, len(t.Args))
		for i, x := range t.Args {
			args[i] = skolemPolar(x, positive, consts)
			if args[i] != x {
				changed = true
			}
		}
		if !changed {
			return t
		}
		return mk(SBool, t.Op, args...)
	case t.Op == "not" && len(t.Args) == 1:
		a := skolemPolar(t.Args[0], !positive, consts)
		if a == t.Args[0] {
			return t
		}
		return mk(SBool, "not", a)
	case (isQuant(t, "exists") && positive) || (isQuant(t, "forall") && !positive):
		v, ok := binderVar(t.Args[0])
		if !ok {
			return t
		}
		skolemCount++
		c := konst(fmt.Sprintf("skp!%d", skolemCount), SInt)
		ranged := false
		if t.Op == "forall" {
			ranged = isRanged(t.Args[1], v)
		} else {
			ranged = t.Args[1].Op == "and" && isRanged(mk(SBool, "=>", t.Args[1], tTrue), v)
		}
		if !ranged {
			classSkolems[c] = true
		}
		*consts = append(*consts, c)
		return skolemPolar(substVar(t.Args[1], v, c, map[*Term]*Term{}), positive, consts)
	}
	return t
}

// elimExists replaces existential quantifiers in positive position of a ground instance by fresh witness constants.
func elimExists(t *Term, wit *[]*Term) *Term {
	switch {
	case !hasBound(t):
		return t
	case t.Op == "=>" && len(t.Args) == 2 && !hasBound(t.Args[0]):
		return implies(t.Args[0], elimExists(t.Args[1], wit))
	case t.Op == "and":
		var cs []*Term
		for _, a := range t.Args {
			cs = append(cs, elimExists(a, wit))
		}
		return and(cs...)
	case isQuant(t, "exists"):
		v, ok := binderVar(t.Args[0])
		if !ok {
			return t
		}
		skolemCount++
		c := konst(fmt.Sprintf("wit!%d", skolemCount), SInt)
		*wit = append(*wit, c)
		return elimExists(substVar(t.Args[1], v, c, map[*Term]*Term{}), wit)
	}
	return t
}

func mentionsAny(t *Term, cs []*Term) bool {
	set := map[*Term]bool{}
	for _, c := range cs {
		set[c] = true
	}
	seen := map[*Term]bool{}
	var walk func(x *Term) bool
	walk = func(x *Term) bool {
		if set[x] {
			return true
		}
		if seen[x] {
			return false
		}
		seen[x] = true
		for _, a := range x.Args {
			if walk(a) {
				return true
			}
		}
		return false
	}
	return walk(t)
}

// existsToCandidates: in positive position of the goal, (exists x. P) is replaced by the disjunction of P at the
// candidates (each disjunct implies the existential).
func existsToCandidates(g *Term, cands []*Term) *Term {
	switch {
	case g.Op == "=>" && len(g.Args) == 2:
		return mk(SBool, "=>", g.Args[0], existsToCandidates(g.Args[1], cands))
	case g.Op == "and":
		args := make([]*Term, len(g.Args))
		for i, a := range g.Args {
			args[i] = existsToCandidates(a, cands)
		}
		return mk(SBool, "and", args...)
	case isQuant(g, "exists"):
		v, ok := binderVar(g.Args[0])
		if !ok || len(cands) == 0 {
			return g
		}
		var ds []*Term
		for _, c := range cands {
			ds = append(ds, substVar(g.Args[1], v, c, map[*Term]*Term{}))
		}
		return or(ds...)
	}
	return g
}

// collectClassTerms: ground terms k used as (select M k) with M a membership array (Array Int Bool)
func collectClassTerms(t *Term, seen map[*Term]bool, out *[]*Term) {
	if seen[t] {
		return
	}
	seen[t] = true
	if t.Op == "select" && len(t.Args) == 2 && t.Args[0].Sort == sortArrIB && !hasBound(t.Args[1]) && !isIntLit(t.Args[1]) {
		dup := false
		for _, o := range *out {
			if o == t.Args[1] {
				dup = true
			}
		}
		if !dup {
			*out = append(*out, t.Args[1])
		}
	}
	for _, a := range t.Args {
		collectClassTerms(a, seen, out)
	}
}

var patternMemo = map[*Term]bool{}

func hasPattern(t *Term) bool {
	if v, ok := patternMemo[t]; ok {
		return v
	}
	r := t.Op == "!"
	if !r {
		for _, a := range t.Args {
			if hasPattern(a) {
				r = true
				break
			}
		}
	}
	patternMemo[t] = r
	return r
}

// stripQuant removes the quantified conjuncts in positive position (a weaker formula); anything else that still
// mentions a bound variable makes the whole formula true (dropped).
func stripQuant(t *Term) *Term {
	switch {
	case !hasBound(t):
		return t
	case t.Op == "=>" && len(t.Args) == 2 && !hasBound(t.Args[0]):
		return implies(t.Args[0], stripQuant(t.Args[1]))
	case t.Op == "and":
		var cs []*Term
		for _, a := range t.Args {
			cs = append(cs, stripQuant(a))
		}
		return and(cs...)
	}
	return tTrue
}

// splitAtom: for a goal (=> reach body) whose reach is a disjunction of path conditions (control flow merged), an
// atom that is asserted on one path and denied on another. The goal is then proved once under the atom and once
// under its negation (a sound case split that the solvers often do not find by themselves).
func splitAtom(goal *Term) *Term {
	if goal.Op != "=>" || len(goal.Args) != 2 {
		return nil
	}
	pos := map[*Term]int{}
	neg := map[*Term]int{}
	var order []*Term
	var walk func(t *Term, depth int)
	walk = func(t *Term, depth int) {
		if depth > 6 {
			return
		}
		switch {
		case t.Op == "and" || t.Op == "or":
			for _, a := range t.Args {
				walk(a, depth+1)
			}
		case t.Op == "not":
			a := t.Args[0]
			if a.Op != "and" && a.Op != "or" && !hasBound(a) {
				if neg[a] == 0 && pos[a] == 0 {
					order = append(order, a)
				}
				neg[a]++
			}
		default:
			if t.Sort == SBool && !hasBound(t) && t != tTrue && t != tFalse {
				if neg[t] == 0 && pos[t] == 0 {
					order = append(order, t)
				}
				pos[t]++
			}
		}
	}
	walk(goal.Args[0], 0)
	for _, a := range order {
		if pos[a] > 0 && neg[a] > 0 {
			return a
		}
	}
	return nil
}


// collectReads: ground (select A t) terms, grouped by the array A.
func collectReads(t *Term, seen map[*Term]bool, out map[*Term][]*Term) {
	if seen[t] {
		return
	}
	seen[t] = true
	if t.Op == "select" && len(t.Args) == 2 && !hasBound(t) {
		a, i := t.Args[0], t.Args[1]
		dup := false
		for _, o := range out[a] {
			if o == i {
				dup = true
				break
			}
		}
		if !dup && len(out[a]) < readCap {
			out[a] = append(out[a], i)
		}
	}
	if hasBound(t) && (t.Op == "forall" || t.Op == "exists") {
		return
	}
	for _, a := range t.Args {
		collectReads(a, seen, out)
	}
}

var instReadsDone = map[[2]*Term]bool{}

// instantiateReads: instances of the unranged universal quantifiers in positive position of a, at the indices at
// which the arrays they index are read. Returns the number of instances added.
func instantiateReads(a *Term, guards []*Term, reads map[*Term][]*Term, out *[]*Term) int {
	n := 0
	switch {
	case a.Op == "=>" && len(a.Args) == 2 && !hasBound(a.Args[0]):
		n += instantiateReads(a.Args[1], append(append([]*Term{}, guards...), a.Args[0]), reads, out)
	case a.Op == "and":
		for _, c := range a.Args {
			n += instantiateReads(c, guards, reads, out)
		}
	case isQuant(a, "forall"):
		v, ok := binderVar(a.Args[0])
		if !ok || isRanged(a.Args[1], v) {
			return 0
		}
		// arrays indexed by exactly the bound variable
		var arrs []*Term
		seen := map[*Term]bool{}
		var walk func(t *Term)
		walk = func(t *Term) {
			if seen[t] || !hasBound(t) {
				return
			}
			seen[t] = true
			if t.Op == "select" && len(t.Args) == 2 && t.Args[1] == v && !hasBound(t.Args[0]) {
				arrs = append(arrs, t.Args[0])
			}
			for _, x := range t.Args {
				walk(x)
			}
		}
		walk(a.Args[1])
		done := map[*Term]bool{}
		for _, arr := range arrs {
			for _, idx := range reads[arr] {
				if done[idx] || instReadsDone[[2]*Term{a, idx}] {
					continue
				}
				done[idx] = true
				instReadsDone[[2]*Term{a, idx}] = true
				b := substVar(a.Args[1], v, idx, map[*Term]*Term{})
				if hasBound(b) {
					continue
				}
				if len(guards) > 0 {
					b = implies(and(guards...), b)
				}
				*out = append(*out, b)
				n++
			}
		}
	}
	return n
}

var readCap, addCap = envInt("GOVC_READCAP", 24), envInt("GOVC_ADDCAP", 1200)

func envInt(name string, def int) int {
	if v := os.Getenv(name); v != "" {
		n := 0
		fmt.Sscanf(v, "%d", &n)
		if n > 0 {
			return n
		}
	}
	return def
}

package main

// Ground instantiation helper. Obligations whose proof needs a quantified assumption (a loop invariant, a callee's
// quantified postcondition) instantiated at one particular index are where the solvers' E-matching is unstable: the
// same goal is decided in a second with one seed and not at all with another. This pass makes the two standard
// moves by hand, both sound:
//   * the goal's positive universal quantifiers are skolemised (proving the body for a fresh constant proves it for all);
//   * every bounded-integer quantifier in an assumption is instantiated at a small set of candidate terms (the skolem
//     constants, the bounds of the quantifier ranges in play) — instances of assumptions are consequences of them.
// The result is offered to the solvers as one more script (the original assumptions stay in it).

import (
	"fmt"
	"strings"
)

var skolemCount int

func isQuant(t *Term, op string) bool {
	return t.Op == op && len(t.Args) == 2 && t.Args[0].Sort == "binder"
}

// binderVar parses "((name Sort))" of a single-variable binder.
func binderVar(b *Term) (*Term, bool) {
	if !strings.HasPrefix(b.Op, "((") || !strings.HasSuffix(b.Op, " Int))") || strings.Contains(b.Op, ") (") {
		return nil, false
	}
	name := strings.TrimSuffix(strings.TrimPrefix(b.Op, "(("), " Int))")
	if strings.ContainsAny(name, " ()") {
		return nil, false
	}
	return mk(SInt, name), true
}

func substVar(t, v, r *Term, memo map[*Term]*Term) *Term {
	if t == v {
		return r
	}
	if len(t.Args) == 0 {
		return t
	}
	if m, ok := memo[t]; ok {
		return m
	}
	changed := false
	args := make([]*Term, len(t.Args))
	for i, a := range t.Args {
		args[i] = substVar(a, v, r, memo)
		if args[i] != a {
			changed = true
		}
	}
	res := t
	if changed {
		res = mk(t.Sort, t.Op, args...)
	}
	memo[t] = res
	return res
}

// skolemise replaces the universal quantifiers in positive position of a goal by fresh constants.
func skolemise(goal *Term, sk *[]*Term) *Term {
	switch {
	case goal.Op == "=>" && len(goal.Args) == 2:
		b := skolemise(goal.Args[1], sk)
		if b == goal.Args[1] {
			return goal
		}
		return mk(SBool, "=>", goal.Args[0], b)
	case goal.Op == "and":
		changed := false
		args := make([]*Term, len(goal.Args))
		for i, a := range goal.Args {
			args[i] = skolemise(a, sk)
			if args[i] != a {
				changed = true
			}
		}
		if !changed {
			return goal
		}
		return mk(SBool, "and", args...)
	case isQuant(goal, "forall"):
		v, ok := binderVar(goal.Args[0])
		if !ok || v.Sort != SInt {
			return goal
		}
		skolemCount++
		c := konst(fmt.Sprintf("sk!%d", skolemCount), SInt)
		*sk = append(*sk, c)
		return skolemise(substVar(goal.Args[1], v, c, map[*Term]*Term{}), sk)
	}
	return goal
}

// rangeBounds: for a body (=> (and .. (<= lo x) .. (< x hi) ..) B) the ground bounds of x.
func rangeBounds(body, x *Term, out *[]*Term) {
	if body.Op != "=>" || len(body.Args) != 2 {
		return
	}
	g := body.Args[0]
	gs := []*Term{g}
	if g.Op == "and" {
		gs = g.Args
	}
	for _, c := range gs {
		if len(c.Args) != 2 {
			continue
		}
		switch {
		case (c.Op == "<=" || c.Op == "<") && c.Args[1] == x && !hasBound(c.Args[0]):
			*out = append(*out, c.Args[0])
		case (c.Op == "<=" || c.Op == "<") && c.Args[0] == x && !hasBound(c.Args[1]):
			hi := c.Args[1]
			*out = append(*out, hi)
			if hi.Op == "+" && len(hi.Args) == 2 && isLit(hi.Args[1], "1") {
				*out = append(*out, hi.Args[0])
			} else if c.Op == "<" {
				*out = append(*out, sub(hi, intLit(1)))
			}
		}
	}
}

func collectBounds(t *Term, seen map[*Term]bool, out *[]*Term) {
	if seen[t] {
		return
	}
	seen[t] = true
	if isQuant(t, "forall") || isQuant(t, "exists") {
		if v, ok := binderVar(t.Args[0]); ok && v.Sort == SInt {
			rangeBounds(t.Args[1], v, out)
			if t.Op == "exists" && t.Args[1].Op == "and" {
				rangeBounds(mk(SBool, "=>", t.Args[1], tTrue), v, out)
			}
		}
	}
	for _, a := range t.Args {
		collectBounds(a, seen, out)
	}
}

// instances of the bounded universal quantifiers in positive position of an assumption, at the candidate terms.
func instantiate(a *Term, guards []*Term, cands []*Term, depth int, out *[]*Term, budget *int) {
	if *budget <= 0 {
		return
	}
	switch {
	case a.Op == "=>" && len(a.Args) == 2:
		instantiate(a.Args[1], append(append([]*Term{}, guards...), a.Args[0]), cands, depth, out, budget)
	case a.Op == "and":
		for _, c := range a.Args {
			instantiate(c, guards, cands, depth, out, budget)
		}
	case isQuant(a, "forall"):
		v, ok := binderVar(a.Args[0])
		if !ok || v.Sort != SInt {
			return
		}
		for _, c := range cands {
			if *budget <= 0 {
				return
			}
			b := substVar(a.Args[1], v, c, map[*Term]*Term{})
			*budget--
			inst := b
			if len(guards) > 0 {
				inst = implies(and(guards...), b)
			}
			if !hasQuantPos(b) {
				*out = append(*out, inst)
			} else if depth > 0 {
				instantiate(b, guards, cands, depth-1, out, budget)
			}
		}
	}
}

// hasQuantPos: a forall in positive position (below =>-consequents and conjunctions only)
func hasQuantPos(t *Term) bool {
	switch {
	case isQuant(t, "forall"):
		return true
	case t.Op == "=>" && len(t.Args) == 2:
		return hasQuantPos(t.Args[1])
	case t.Op == "and":
		for _, a := range t.Args {
			if hasQuantPos(a) {
				return true
			}
		}
	}
	return false
}

// instantiatedScript: assumptions + ground instances, skolemised goal. Empty when there is nothing to instantiate.
func instantiatedScript(as []*Term, goal *Term) string {
	var sk []*Term
	g := skolemise(goal, &sk)
	var bounds []*Term
	seen := map[*Term]bool{}
	for _, a := range as {
		if hasBound(a) {
			collectBounds(a, seen, &bounds)
		}
	}
	collectBounds(goal, seen, &bounds)
	cands := append([]*Term{}, sk...)
	have := map[*Term]bool{}
	for _, c := range cands {
		have[c] = true
	}
	for _, b := range bounds {
		if !have[b] && !hasBound(b) && len(cands) < 14 {
			have[b] = true
			cands = append(cands, b)
		}
	}
	if len(cands) == 0 {
		return ""
	}
	var insts []*Term
	budget := 400
	for _, a := range as {
		if hasBound(a) {
			instantiate(a, nil, cands, 1, &insts, &budget)
		}
	}
	if len(insts) == 0 && len(sk) == 0 {
		return ""
	}
	return script(append(append([]*Term{}, as...), insts...), g, nil)
}

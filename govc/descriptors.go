package main

import (
	"go/ast"
	"strconv"

	"golang.org/x/tools/go/packages"
	"golang.org/x/tools/go/ssa"
)

type Descriptor struct {
	Name     string
	Index    int
	ArgTypes []int // TypeIDs, -1 = Any / unknown
	HasArgs  bool
	OutIDs   []int // nil = unknown
	Strict   bool
	Lit      *ast.FuncLit
	Fn       *ssa.Function
	TypeFnLit *ast.FuncLit
	TypeFn    *ssa.Function
}

var typeIDByName = map[string]int{"Null": 0, "Int": 1, "Float": 2, "Boolean": 3, "String": 4, "Time": 5, "Duration": 6, "Any": -1}

func typeExprIDs(e ast.Expr) []int {
	switch x := e.(type) {
	case *ast.SelectorExpr:
		if id, ok := typeIDByName[x.Sel.Name]; ok {
			return []int{id}
		}
	case *ast.CallExpr:
		if s, ok := x.Fun.(*ast.SelectorExpr); ok && s.Sel.Name == "TypeSum" {
			var out []int
			for _, a := range x.Args {
				ids := typeExprIDs(a)
				if ids == nil {
					return nil
				}
				out = append(out, ids...)
			}
			return out
		}
	}
	return nil
}

func findDescriptors(pkg *packages.Package) []*Descriptor {
	var out []*Descriptor
	for _, f := range pkg.Syntax {
		for _, d := range f.Decls {
			fd, ok := d.(*ast.FuncDecl)
			if !ok || fd.Name.Name != "FunctionMap" {
				continue
			}
			ret := fd.Body.List[len(fd.Body.List)-1].(*ast.ReturnStmt)
			m := ret.Results[0].(*ast.CompositeLit)
			for _, el := range m.Elts {
				kv := el.(*ast.KeyValueExpr)
				name, _ := strconv.Unquote(kv.Key.(*ast.BasicLit).Value)
				details := kv.Value.(*ast.CompositeLit)
				for _, del := range details.Elts {
					dkv := del.(*ast.KeyValueExpr)
					if dkv.Key.(*ast.Ident).Name != "Descriptors" {
						continue
					}
					for i, de := range dkv.Value.(*ast.CompositeLit).Elts {
						desc := &Descriptor{Name: name, Index: i}
						for _, fe := range de.(*ast.CompositeLit).Elts {
							fkv := fe.(*ast.KeyValueExpr)
							switch fkv.Key.(*ast.Ident).Name {
							case "ArgumentTypes":
								desc.HasArgs = true
								for _, a := range fkv.Value.(*ast.CompositeLit).Elts {
									ids := typeExprIDs(a)
									if len(ids) == 1 {
										desc.ArgTypes = append(desc.ArgTypes, ids[0])
									} else {
										desc.ArgTypes = append(desc.ArgTypes, -1)
									}
								}
							case "OutputType":
								desc.OutIDs = typeExprIDs(fkv.Value)
							case "TypeFn":
								if fl, ok := fkv.Value.(*ast.FuncLit); ok {
									desc.TypeFnLit = fl
								}
							case "Strict":
								desc.Strict = fkv.Value.(*ast.Ident).Name == "true"
							case "Function":
								switch fv := fkv.Value.(type) {
								case *ast.FuncLit:
									desc.Lit = fv
								case *ast.CallExpr: // immediately invoked literal returning the function
									outer := fv.Fun.(*ast.FuncLit)
									for _, s := range outer.Body.List {
										if r, ok := s.(*ast.ReturnStmt); ok {
											desc.Lit = r.Results[0].(*ast.FuncLit)
										}
									}
								}
							}
						}
						out = append(out, desc)
					}
				}
			}
		}
	}
	return out
}

func allAnon(f *ssa.Function, out *[]*ssa.Function) {
	for _, a := range f.AnonFuncs {
		*out = append(*out, a)
		allAnon(a, out)
	}
}


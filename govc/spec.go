package main

import (
	"fmt"
	"go/ast"
	"go/parser"
	"go/token"
	"go/types"
	"regexp"
	"strconv"
	"strings"

	"golang.org/x/tools/go/ssa"
)

// ---------- contract files ----------

type SpecFn struct {
	Name   string
	Params []string
	PTypes []string
	Ret    string
	Body   ast.Expr // nil = uninterpreted
	Pkg    *types.Package
	Rec    bool // recursive definition: an uninterpreted function unfolded once at the terms a clause names
}

type Clause struct {
	Name string // optional label; "" = positional
	Expr ast.Expr
	Src  string
}

type FuncContract struct {
	Selector     string
	Pkg          *types.Package
	File         string
	Requires     []Clause
	Assumes      []Clause // input assumptions that are not caller obligations (listed in evidence)
	Ensures      []Clause
	Defines      []Clause // definitional postconditions of a pure function: assumed at call sites, not checkable in the body
	LoopInv      map[int][]Clause
	LoopDec      map[int]ast.Expr
	LoopStep     map[int][]Clause
	LoopNoBreak  map[int]bool     // loop N nobreak: the loop is left only through its condition or by returning
	LoopAssume   map[int][]Clause // facts about values the loop receives from outside (channel messages), assumed at the head
	StreamInv    map[int][]Clause
	StreamAssume map[int][]Clause
	AscendInv    map[int][]Clause
	AscendStep   map[int][]Clause
	AscendExit   map[int][]Clause // proved in the state right after the Ascend, then assumed (a cut before control flow merges)
	StreamStep   map[int]map[string][]Clause // per stream, per input trace (IN | INM | END): per-event transfer obligations
	Flags        map[string]bool // pure, inline, trusted
	Lets         []Clause        // ghost definitions evaluated at entry: let name: expr
}

type ChanClause struct {
	Clause
	Pkg *types.Package
	Ty  string
}

type FindingClass struct {
	Name string
	Expr ast.Expr
	Src  string
	Pkg  *types.Package
}

type Lemma struct {
	Name     string
	Pkg      *types.Package
	Params   []string
	PTypes   []string
	Requires []Clause
	Ensures  []Clause
	Uses     []Clause
	Cases    []Clause // case split: one obligation per case (name: condition)
}

type Contracts struct {
	Funcs   map[string]*FuncContract // key: pkgpath|selector
	Specs   map[string]*SpecFn
	Classes map[string]*FindingClass
	Lemmas  map[string]*Lemma
	ChanMsg map[string][]ChanClause // element type (as written) -> facts assumed of every value received from such a channel
	Order   []string // keys of Funcs in file order
	LemmaOrder []string
}

func newContracts() *Contracts {
	return &Contracts{Funcs: map[string]*FuncContract{}, Specs: map[string]*SpecFn{}, Classes: map[string]*FindingClass{}, Lemmas: map[string]*Lemma{}, ChanMsg: map[string][]ChanClause{}}
}

func (cs *Contracts) forFunc(pkg *types.Package, sel string) *FuncContract {
	return cs.Funcs[pkg.Path()+"|"+sel]
}

// rewriteImplies turns "a ==> b" (lowest precedence, right associative) into implies(a, b),
// inside every parenthesised argument as well.
func rewriteImplies(s string) string {
	// 1. rewrite inside top-level parenthesised groups
	var sb strings.Builder
	depth := 0
	startIdx := -1
	for i := 0; i < len(s); i++ {
		c := s[i]
		if c == '(' {
			if depth == 0 {
				startIdx = i
			}
			depth++
		} else if c == ')' {
			depth--
			if depth == 0 {
				inner := s[startIdx+1 : i]
				parts := splitTop(inner)
				for k := range parts {
					parts[k] = rewriteImplies(parts[k])
				}
				sb.WriteString("(" + strings.Join(parts, ",") + ")")
				startIdx = -1
				continue
			}
		}
		if depth == 0 {
			sb.WriteByte(c)
		}
	}
	t := sb.String()
	// 2. top-level ==> of this segment
	depth = 0
	for i := 0; i+2 < len(t); i++ {
		switch t[i] {
		case '(', '[':
			depth++
		case ')', ']':
			depth--
		}
		if depth == 0 && t[i:i+3] == "==>" {
			return " implies(" + strings.TrimSpace(t[:i]) + ", " + strings.TrimSpace(rewriteImplies2(t[i+3:])) + ")"
		}
	}
	return t
}

// rewriteImplies2 handles the right-hand side (already group-rewritten) for right associativity.
func rewriteImplies2(t string) string {
	depth := 0
	for i := 0; i+2 < len(t); i++ {
		switch t[i] {
		case '(', '[':
			depth++
		case ')', ']':
			depth--
		}
		if depth == 0 && t[i:i+3] == "==>" {
			return " implies(" + strings.TrimSpace(t[:i]) + ", " + strings.TrimSpace(rewriteImplies2(t[i+3:])) + ")"
		}
	}
	return t
}

func splitTop(s string) []string {
	var parts []string
	d := 0
	last := 0
	for i := 0; i < len(s); i++ {
		switch s[i] {
		case '(', '[':
			d++
		case ')', ']':
			d--
		case ',':
			if d == 0 {
				parts = append(parts, s[last:i])
				last = i + 1
			}
		}
	}
	return append(parts, s[last:])
}

func parseSpecExpr(src string) ast.Expr {
	src = strings.ReplaceAll(src, "$k", "k_")
	src = rewriteImplies(src)
	e, err := parser.ParseExpr(src)
	if err != nil {
		panic(fmt.Sprintf("spec parse error in %q: %v", src, err))
	}
	return e
}

// splitLabel separates an optional "name:" label from a clause body.
func splitLabel(s string) (string, string) {
	s = strings.TrimSpace(s)
	i := strings.Index(s, ":")
	if i <= 0 {
		return "", s
	}
	lab := s[:i]
	for _, r := range lab {
		if !(r >= 'a' && r <= 'z' || r >= 'A' && r <= 'Z' || r >= '0' && r <= '9' || r == '_' || r == '.' || r == '-') {
			return "", s
		}
	}
	return lab, strings.TrimSpace(s[i+1:])
}

func mkClause(s string) Clause {
	lab, body := splitLabel(s)
	return Clause{Name: lab, Expr: parseSpecExpr(body), Src: body}
}

func parseParams(s string) (names, tys []string) {
	for _, p := range splitTop(s) {
		p = strings.TrimSpace(p)
		if p == "" {
			continue
		}
		i := strings.IndexAny(p, " \t")
		names = append(names, p[:i])
		tys = append(tys, strings.TrimSpace(p[i+1:]))
	}
	return
}

// parseFile reads the //@ clauses of one contract file that belongs to package pkg.
func (cs *Contracts) parseFile(text string, pkg *types.Package, file string) (err error) {
	defer func() {
		if r := recover(); r != nil {
			err = fmt.Errorf("%s: %v", file, r)
		}
	}()
	var cur *FuncContract
	var curLemma *Lemma
	var pending string
	var lines []string
	for _, l := range strings.Split(text, "\n") {
		l = strings.TrimSpace(l)
		if !strings.HasPrefix(l, "//@") {
			continue
		}
		l = strings.TrimSpace(strings.TrimPrefix(l, "//@"))
		if l == "" {
			continue
		}
		if strings.HasPrefix(l, "...") { // continuation
			pending += " " + strings.TrimSpace(strings.TrimPrefix(l, "..."))
			lines[len(lines)-1] = pending
			continue
		}
		pending = l
		lines = append(lines, l)
	}
	for _, l := range lines {
		switch {
		case strings.HasPrefix(l, "func "):
			sel := strings.TrimSpace(l[5:])
			cur = &FuncContract{Selector: sel, Pkg: pkg, File: file, LoopInv: map[int][]Clause{}, LoopDec: map[int]ast.Expr{}, LoopStep: map[int][]Clause{}, LoopAssume: map[int][]Clause{}, LoopNoBreak: map[int]bool{}, StreamInv: map[int][]Clause{}, StreamAssume: map[int][]Clause{}, StreamStep: map[int]map[string][]Clause{}, AscendInv: map[int][]Clause{}, AscendStep: map[int][]Clause{}, AscendExit: map[int][]Clause{}, Flags: map[string]bool{}}
			curLemma = nil
			key := pkg.Path() + "|" + sel
			if _, dup := cs.Funcs[key]; dup {
				panic("duplicate contract for " + sel)
			}
			cs.Funcs[key] = cur
			cs.Order = append(cs.Order, key)
		case strings.HasPrefix(l, "lemma "):
			rest := l[6:]
			open := strings.Index(rest, "(")
			cl := strings.LastIndex(rest, ")")
			curLemma = &Lemma{Name: strings.TrimSpace(rest[:open]), Pkg: pkg}
			curLemma.Params, curLemma.PTypes = parseParams(rest[open+1 : cl])
			cur = nil
			cs.Lemmas[curLemma.Name] = curLemma
			cs.LemmaOrder = append(cs.LemmaOrder, curLemma.Name)
		case strings.HasPrefix(l, "requires "):
			if curLemma != nil {
				curLemma.Requires = append(curLemma.Requires, mkClause(l[9:]))
			} else {
				cur.Requires = append(cur.Requires, mkClause(l[9:]))
			}
		case strings.HasPrefix(l, "assumes "):
			cur.Assumes = append(cur.Assumes, mkClause(l[8:]))
		case strings.HasPrefix(l, "let "):
			cur.Lets = append(cur.Lets, mkClause(l[4:]))
		case strings.HasPrefix(l, "ensures "):
			if curLemma != nil {
				curLemma.Ensures = append(curLemma.Ensures, mkClause(l[8:]))
			} else {
				cur.Ensures = append(cur.Ensures, mkClause(l[8:]))
			}
		case strings.HasPrefix(l, "defines "):
			cur.Defines = append(cur.Defines, mkClause(l[8:]))
		case strings.HasPrefix(l, "use "):
			curLemma.Uses = append(curLemma.Uses, mkClause(l[4:]))
		case strings.HasPrefix(l, "case "):
			curLemma.Cases = append(curLemma.Cases, mkClause(l[5:]))
		case l == "pure" || l == "inline" || l == "trusted":
			cur.Flags[l] = true
		case strings.HasPrefix(l, "loop "):
			f := strings.Fields(l)
			n, _ := strconv.Atoi(f[1])
			switch f[2] {
			case "invariant":
				cur.LoopInv[n] = append(cur.LoopInv[n], mkClause(strings.SplitN(l, "invariant", 2)[1]))
			case "decreases":
				cur.LoopDec[n] = parseSpecExpr(strings.SplitN(l, "decreases", 2)[1])
			case "step":
				cur.LoopStep[n] = append(cur.LoopStep[n], mkClause(strings.SplitN(l, " step ", 2)[1]))
			case "assumes":
				cur.LoopAssume[n] = append(cur.LoopAssume[n], mkClause(strings.SplitN(l, " assumes ", 2)[1]))
			case "nobreak":
				cur.LoopNoBreak[n] = true
			default:
				panic("unknown loop clause: " + l)
			}
		case strings.HasPrefix(l, "ascend "):
			f := strings.Fields(l)
			n, _ := strconv.Atoi(f[1])
			switch f[2] {
			case "invariant":
				cur.AscendInv[n] = append(cur.AscendInv[n], mkClause(strings.SplitN(l, "invariant", 2)[1]))
			case "step":
				cur.AscendStep[n] = append(cur.AscendStep[n], mkClause(strings.SplitN(l, " step ", 2)[1]))
			case "exit":
				cur.AscendExit[n] = append(cur.AscendExit[n], mkClause(strings.SplitN(l, " exit ", 2)[1]))
			default:
				panic("unknown ascend clause: " + l)
			}
		case strings.HasPrefix(l, "stream "):
			f := strings.Fields(l)
			n, _ := strconv.Atoi(f[1])
			switch f[2] {
			case "assumes":
				cur.StreamAssume[n] = append(cur.StreamAssume[n], mkClause(strings.SplitN(l, "assumes", 2)[1]))
			case "invariant":
				cur.StreamInv[n] = append(cur.StreamInv[n], mkClause(strings.SplitN(l, "invariant", 2)[1]))
			case "step":
				tr := f[3]
				if tr != "IN" && tr != "INM" {
					panic("stream step needs IN or INM: " + l)
				}
				if cur.StreamStep[n] == nil {
					cur.StreamStep[n] = map[string][]Clause{}
				}
				cur.StreamStep[n][tr] = append(cur.StreamStep[n][tr], mkClause(strings.SplitN(l, " "+tr+" ", 2)[1]))
			default:
				panic("unknown stream clause: " + l)
			}
		case strings.HasPrefix(l, "chan "):
			// chan T assumes name: expr   (msg = the received value)
			f := strings.Fields(l)
			rest := strings.SplitN(l, " assumes ", 2)
			if len(f) < 3 || len(rest) != 2 {
				panic("bad chan clause: " + l)
			}
			cs.ChanMsg[f[1]] = append(cs.ChanMsg[f[1]], ChanClause{Clause: mkClause(rest[1]), Pkg: pkg, Ty: f[1]})
		case strings.HasPrefix(l, "finding-class "):
			lab, body := splitLabel(l[14:])
			if lab == "" {
				panic("finding-class needs a name: " + l)
			}
			cs.Classes[lab] = &FindingClass{Name: lab, Expr: parseSpecExpr(body), Src: body, Pkg: pkg}
		case strings.HasPrefix(l, "spec "):
			// spec [rec] name(p T, q U) R = body
			rest := l[5:]
			rec := false
			if strings.HasPrefix(rest, "rec ") {
				rec = true
				rest = rest[4:]
			}
			var body ast.Expr
			if i := strings.Index(rest, " = "); i >= 0 {
				body = parseSpecExpr(rest[i+3:])
				rest = rest[:i]
			}
			open := strings.Index(rest, "(")
			cl := strings.LastIndex(rest, ")")
			sf := &SpecFn{Name: strings.TrimSpace(rest[:open]), Ret: strings.TrimSpace(rest[cl+1:]), Body: body, Pkg: pkg, Rec: rec}
			sf.Params, sf.PTypes = parseParams(rest[open+1 : cl])
			if old, dup := cs.Specs[sf.Name]; dup && old.Pkg != pkg {
				panic("spec function " + sf.Name + " defined in two packages")
			}
			cs.Specs[sf.Name] = sf
		default:
			panic("unknown clause: " + l)
		}
	}
	return nil
}

// ---------- spec evaluation ----------

type SpecEnv struct {
	atPos token.Pos
	e     *Exec
	fr    *Frame
	st    *BState
	bound map[string]SV
	cs    *Contracts
	pkg   *types.Package
	oldSt *BState // state old() refers to (default: entry state of the unit)
	outerSt *BState // state outer() refers to: the head of the enclosing loop's current iteration (inner-loop clauses)
	oldFr *Frame
	nowEnv *SpecEnv // set inside old(): the environment of the enclosing (current-state) expression
	unfold   int  // >0: inside the body of a recursive spec function (inner applications stay uninterpreted)
	expandFn bool // real functions called in the expression are expanded from their SSA (lemma top level); else by contract
}

func (env *SpecEnv) with(name string, v SV) *SpecEnv {
	n := *env
	n.bound = map[string]SV{}
	for k, x := range env.bound {
		n.bound[k] = x
	}
	n.bound[name] = v
	return &n
}

func boolSV(t *Term) SV { return &Scalar{T: t, Ty: types.Typ[types.Bool]} }
func intSV(t *Term) SV  { return &Scalar{T: t, Ty: types.Typ[types.Int]} }

var litLocal = regexp.MustCompile(`^L(\d+)_(\w+)$`)

func (env *SpecEnv) lookupVar(name string) SV {
	if v, ok := env.bound[name]; ok {
		return v
	}
	if v, ok := env.st.ghost[name]; ok {
		return v
	}
	if m := litLocal.FindStringSubmatch(name); m != nil {
		// a local or parameter of the k-th function literal of the function under contract (an inlined callback)
		k, _ := strconv.Atoi(m[1])
		root := env.fr.fn
		if k < 1 || k > len(root.AnonFuncs) {
			panic("spec: " + name + ": no such function literal")
		}
		lf := env.e.lastFrame[root.AnonFuncs[k-1]]
		if lf == nil {
			panic("spec: " + name + ": the literal was not executed before this point")
		}
		sub := *env
		sub.fr = lf
		sub.bound = map[string]SV{}
		return sub.lookupVar(m[2])
	}
	if env.fr.contractOnly {
		for _, p := range env.fr.fn.Params {
			if p.Name() == name {
				return env.fr.regs[p]
			}
		}
	}
	if env.fr.fn == nil {
		if name == "nil" {
			return nil
		}
		panic("spec: unknown identifier " + name)
	}
	// a local variable of the current function by name: a cell, or a heap-allocated (captured) variable whose Alloc
	// has been executed. Several may share the name (shadowing / sibling scopes): prefer the nearest declaration at or
	// before the evaluation position; without a position, the first declared.
	var found *ssa.Alloc
	consider := func(a *ssa.Alloc) {
		if found == nil {
			found = a
			return
		}
		if env.atPos != token.NoPos {
			fa, aa := found.Pos() <= env.atPos, a.Pos() <= env.atPos
			if aa && (!fa || a.Pos() > found.Pos()) {
				found = a
			}
		} else if a.Pos() < found.Pos() {
			found = a
		}
	}
	for a := range env.st.cells {
		if a.Comment == name && a.Parent() == env.fr.fn {
			consider(a)
		}
	}
	for _, b := range env.fr.fn.Blocks {
		for _, ins := range b.Instrs {
			if a, ok := ins.(*ssa.Alloc); ok && a.Heap && a.Comment == name {
				if _, isCell := env.st.cells[a]; isCell {
					continue
				}
				if _, ok := env.fr.regs[a]; ok {
					consider(a)
				}
			}
		}
	}
	if found != nil {
		if v, ok := env.st.cells[found]; ok {
			return v
		}
		if found.Heap {
			// the captured copy of a parameter does not exist yet in the state old() refers to (function entry): the
			// parameter itself is its value there
			for _, p := range env.fr.fn.Params {
				if p.Name() == name && found.Pos() == p.Pos() {
					return env.fr.regs[p]
				}
			}
		}
		return env.e.readLV(env.st, env.fr.regs[found].(*PtrV), found.Type().(*types.Pointer).Elem())
	}
	for _, p := range env.fr.fn.Params {
		if p.Name() == name {
			return env.fr.regs[p]
		}
	}
	// free variables of closures
	for i, fv := range env.fr.fn.FreeVars {
		if fv.Name() == name {
			p := env.fr.bind[i].(*PtrV)
			return env.e.readLV(env.st, p, fv.Type().(*types.Pointer).Elem())
		}
	}
	// package-level constants and variables (of this package or of a package of the module it imports)
	if env.pkg != nil {
		pkgs := []*types.Package{env.pkg}
		for _, imp := range env.pkg.Imports() {
			if strings.HasPrefix(imp.Path(), modPath) {
				pkgs = append(pkgs, imp)
			}
		}
		for _, p := range pkgs {
			obj := p.Scope().Lookup(name)
			if obj == nil {
				continue
			}
			if c, ok := obj.(*types.Const); ok {
				return env.e.constSV(ssa.NewConst(c.Val(), c.Type()))
			}
			if _, ok := obj.(*types.Var); ok && env.e.w != nil {
				if sp := env.e.w.Prog.Package(p); sp != nil {
					if g, ok := sp.Members[name].(*ssa.Global); ok {
						return env.e.loadObj(env.st, env.e.globalAddr(g), g.Type().(*types.Pointer).Elem())
					}
				}
			}
		}
	}
	if name == "nil" {
		return nil
	}
	// a local variable of the function that is not in scope on this path (declared later): arbitrary
	if env.fr.fn != nil {
		for _, b := range env.fr.fn.Blocks {
			for _, ins := range b.Instrs {
				if a, ok := ins.(*ssa.Alloc); ok && a.Comment == name {
					return env.e.freshSV(a.Type().(*types.Pointer).Elem(), "outofscope."+name, tTrue, false)
				}
			}
		}
	}
	panic("spec: unknown identifier " + name)
}

func (env *SpecEnv) deref(v SV) SV {
	if p, ok := v.(*PtrV); ok {
		return env.e.readLV(env.st, p, p.Ty.Underlying().(*types.Pointer).Elem())
	}
	return v
}

func structOf(t types.Type) *types.Struct {
	if p, ok := t.Underlying().(*types.Pointer); ok {
		t = p.Elem()
	}
	s, _ := t.Underlying().(*types.Struct)
	return s
}

// evalGoal evaluates an expression that is about to be proved (not assumed): recursive spec functions are then
// unfolded in the direction body ==> f(t); in assumption context in the direction f(t) ==> body.
func (env *SpecEnv) evalGoal(x ast.Expr) SV {
	cp := *env
	cp.st = env.st.clone() // snapshot: a finding class of this obligation is evaluated in the state it was generated in
	env.e.lastGoalEnv = &cp
	env.e.goalCtx++
	defer func() { env.e.goalCtx-- }()
	return env.eval(x)
}

func (env *SpecEnv) eval(x ast.Expr) SV {
	switch n := x.(type) {
	case *ast.ParenExpr:
		return env.eval(n.X)
	case *ast.Ident:
		switch n.Name {
		case "true":
			return boolSV(tTrue)
		case "false":
			return boolSV(tFalse)
		}
		return env.lookupVar(n.Name)
	case *ast.BasicLit:
		switch n.Kind {
		case token.INT:
			return intSV(bigLit(n.Value))
		case token.STRING:
			s, _ := strconv.Unquote(n.Value)
			return &Scalar{T: strLit(s), Ty: types.Typ[types.String]}
		}
	case *ast.SelectorExpr:
		// package-qualified constant?
		if id, ok := n.X.(*ast.Ident); ok {
			if _, isBound := env.bound[id.Name]; !isBound {
				if c := env.qualifiedConst(id.Name, n.Sel.Name); c != nil {
					return c
				}
			}
		}
		base := env.deref(env.eval(n.X))
		if sl, ok := base.(*SliceV); ok {
			switch n.Sel.Name {
			case "base":
				return intSV(sl.Base)
			case "off":
				return intSV(sl.Off)
			case "len":
				return intSV(sl.Len)
			case "cap":
				return intSV(sl.Cap)
			}
		}
		if tv, ok := base.(*StructV); ok && isTime(tv.Ty) {
			switch n.Sel.Name {
			case "ns":
				return intSV(scal(tv.Fields[0]))
			case "aux":
				return intSV(scal(tv.Fields[1]))
			}
		}
		sv, ok := base.(*StructV)
		if !ok {
			panic(fmt.Sprintf("spec: selector %s on %T", n.Sel.Name, base))
		}
		st := structOf(sv.Ty)
		for i := 0; i < st.NumFields(); i++ {
			if st.Field(i).Name() == n.Sel.Name {
				return sv.Fields[i]
			}
		}
		panic("spec: no field " + n.Sel.Name)
	case *ast.IndexExpr:
		base := env.eval(n.X)
		idx := scal(env.eval(n.Index))
		sl := base.(*SliceV)
		return env.e.loadElem(env.st, sl, idx, sl.Ty.Underlying().(*types.Slice).Elem())
	case *ast.UnaryExpr:
		v := env.eval(n.X)
		switch n.Op {
		case token.NOT:
			return boolSV(not(scal(v)))
		case token.SUB:
			return intSV(app(SInt, "-", scal(v)))
		}
	case *ast.BinaryExpr:
		switch n.Op {
		case token.LAND:
			return boolSV(and(scal(env.eval(n.X)), scal(env.eval(n.Y))))
		case token.LOR:
			return boolSV(or(scal(env.eval(n.X)), scal(env.eval(n.Y))))
		}
		l, r := env.eval(n.X), env.eval(n.Y)
		// comparisons with nil
		if r == nil || l == nil {
			other := l
			if l == nil {
				other = r
			}
			var isNil *Term
			switch o := other.(type) {
			case *IfaceV:
				isNil = eq(o.Tag, intLit(0))
			case *PtrV:
				isNil = o.nilCond()
			case *SliceV:
				isNil = eq(o.Base, intLit(0))
			default:
				panic("spec: nil comparison")
			}
			if n.Op == token.NEQ {
				isNil = not(isNil)
			}
			return boolSV(isNil)
		}
		if _, ok := l.(*Scalar); !ok {
			return env.e.binop(env.st, n.Op, l, r, nil, types.Typ[types.Bool], token.NoPos)
		}
		a, b := scal(l), scal(r)
		// spec integers are mathematical: no wrapping
		if a.Sort == SInt {
			switch n.Op {
			case token.ADD:
				return intSV(add(a, b))
			case token.SUB:
				return intSV(sub(a, b))
			case token.MUL:
				return intSV(app(SInt, "*", a, b))
			}
		}
		return env.e.binop(env.st, n.Op, l, r, types.Typ[types.Int], types.Typ[types.Bool], token.NoPos)
	case *ast.CallExpr:
		return env.call(n)
	}
	panic(fmt.Sprintf("spec: unsupported expression %T", x))
}

func (env *SpecEnv) qualifiedConst(pkgName, name string) SV {
	if env.pkg == nil {
		return nil
	}
	for _, imp := range env.pkg.Imports() {
		if imp.Name() == pkgName {
			if c, ok := imp.Scope().Lookup(name).(*types.Const); ok {
				return env.e.constSV(ssa.NewConst(c.Val(), c.Type()))
			}
		}
	}
	return nil
}

var nbound int

func (env *SpecEnv) call(n *ast.CallExpr) SV {
	name := ""
	if id, ok := n.Fun.(*ast.Ident); ok {
		name = id.Name
	}
	switch name {
	case "implies":
		return boolSV(implies(scal(env.eval(n.Args[0])), scal(env.eval(n.Args[1]))))
	case "len":
		switch v := env.eval(n.Args[0]).(type) {
		case *SliceV:
			return intSV(v.Len)
		case *Scalar:
			return intSV(env.e.strLen(v.T))
		}
	case "ite":
		c := scal(env.eval(n.Args[0]))
		a, b := env.eval(n.Args[1]), env.eval(n.Args[2])
		return &Scalar{T: ite(c, scal(a), scal(b)), Ty: a.(*Scalar).Ty}
	case "forall", "exists":
		vn := n.Args[0].(*ast.Ident).Name
		nbound++
		bv := mk(SInt, fmt.Sprintf("%s!q%d", vn, nbound))
		lo, hi := scal(env.eval(n.Args[1])), scal(env.eval(n.Args[2]))
		body := scal(env.with(vn, intSV(bv)).eval(n.Args[3]))
		rng := and(le(lo, bv), lt(bv, hi))
		if name == "forall" {
			return boolSV(mk(SBool, "forall", mk("binder", "(("+bv.Op+" Int))"), implies(rng, body)))
		}
		return boolSV(mk(SBool, "exists", mk("binder", "(("+bv.Op+" Int))"), and(rng, body)))
	}
	if r, ok := env.containerSpec(name, n); ok {
		return r
	}
	if r, ok := env.btreeSpec(name, n); ok {
		return r
	}
	if r, ok := env.jsonSpec(name, n); ok {
		return r
	}
	if sf, ok := env.cs.Specs[name]; ok {
		var args []SV
		for _, a := range n.Args {
			args = append(args, env.eval(a))
		}
		if sf.Body != nil && !sf.Rec {
			sub := env
			for i, p := range sf.Params {
				sub = sub.with(p, args[i])
			}
			if sf.Pkg != nil && sub.pkg != sf.Pkg {
				cp := *sub
				cp.pkg = sf.Pkg // type and constant names in the body belong to the package that declares the spec
				sub = &cp
			}
			return sub.eval(sf.Body)
		}
		uf := env.e.applyUF(name, args, env.specRetType(sf))
		if sf.Rec && env.unfold == 0 {
			var ls []*Term
			for _, a := range args {
				leaves(a, &ls)
			}
			bound := false
			key := name
			if env.e.goalCtx > 0 {
				key = "goal:" + name
			}
			for _, l := range ls {
				if hasBound(l) {
					bound = true
				}
				key += fmt.Sprintf(" %d", l.id)
			}
			if !bound && (env.e.goalCtx > 0 || !env.e.unfolded[key]) {
				if env.e.unfolded == nil {
					env.e.unfolded = map[string]bool{}
				}
				if env.e.goalCtx == 0 {
					env.e.unfolded[key] = true // goal-directed unfoldings are local to their obligation: never memoised
				}
				sub := env
				for i, p := range sf.Params {
					sub = sub.with(p, args[i])
				}
				if sf.Pkg != nil && sub.pkg != sf.Pkg {
					cp := *sub
					cp.pkg = sf.Pkg
					sub = &cp
				}
				sub.unfold = 1
				body := sub.eval(sf.Body)
				var lu, lb []*Term
				leaves(uf, &lu)
				leaves(body, &lb)
				for i := range lu {
					switch {
					case lu[i].Sort != SBool:
						env.e.assume(eq(lu[i], lb[i]))
					case env.e.goalCtx > 0:
						// only for the obligation being built, not for later ones
						env.e.goalLocal = append(env.e.goalLocal, implies(lb[i], lu[i]))
					default:
						env.e.assume(implies(lu[i], lb[i]))
					}
				}
			}
		}
		return uf
	}
	if r, ok := env.realCall(n); ok {
		return r
	}
	panic("spec: unknown function " + name)
}

// realCall evaluates a call of a real Go function or method written in a contract: x.M(args) or F(args).
// At the top level of a lemma the function's SSA is expanded (its summary); elsewhere the call is by contract.
func (env *SpecEnv) realCall(n *ast.CallExpr) (SV, bool) {
	e := env.e
	if e.w == nil {
		return nil, false
	}
	var fn *ssa.Function
	var args []SV
	switch f := n.Fun.(type) {
	case *ast.SelectorExpr:
		recv := env.eval(f.X)
		var rt types.Type
		switch r := recv.(type) {
		case *StructV:
			rt = r.Ty
		case *PtrV:
			rt = r.Ty
		case *SliceV:
			rt = r.Ty
		case *Scalar:
			rt = r.Ty
		}
		if rt == nil {
			return nil, false
		}
		sel := e.w.Prog.MethodSets.MethodSet(rt).Lookup(nil, f.Sel.Name)
		if sel == nil {
			if named, ok := rt.(*types.Named); ok {
				sel = e.w.Prog.MethodSets.MethodSet(rt).Lookup(named.Obj().Pkg(), f.Sel.Name)
			}
			if pt, ok := rt.(*types.Pointer); ok && sel == nil {
				if named, ok := pt.Elem().(*types.Named); ok {
					sel = e.w.Prog.MethodSets.MethodSet(rt).Lookup(named.Obj().Pkg(), f.Sel.Name)
				}
			}
		}
		if sel == nil {
			return nil, false
		}
		fn = e.w.Prog.MethodValue(sel)
		args = append(args, recv)
	case *ast.Ident:
		if env.pkg == nil {
			return nil, false
		}
		sp := e.w.Prog.Package(env.pkg)
		if sp == nil || sp.Func(f.Name) == nil {
			// look through the module's imported packages
			for _, imp := range env.pkg.Imports() {
				if ip := e.w.Prog.Package(imp); ip != nil && strings.HasPrefix(imp.Path(), modPath) && ip.Func(f.Name) != nil {
					sp = ip
				}
			}
		}
		if sp == nil || sp.Func(f.Name) == nil {
			return nil, false
		}
		fn = sp.Func(f.Name)
	default:
		return nil, false
	}
	if fn == nil {
		return nil, false
	}
	for _, a := range n.Args {
		args = append(args, env.eval(a))
	}
	e.coerceArgs(fn, args)
	return e.specCall(env, fn, args), true
}


var namedTypes = map[string]types.Type{}

func (env *SpecEnv) specRetType(sf *SpecFn) types.Type {
	switch sf.Ret {
	case "bool":
		return types.Typ[types.Bool]
	case "int":
		return types.Typ[types.Int]
	case "error":
		return types.Universe.Lookup("error").Type()
	}
	if t, ok := namedTypes[sf.Ret]; ok {
		return t
	}
	p := sf.Pkg
	if p == nil {
		p = env.pkg
	}
	t, err := resolveTypeString(p, sf.Ret)
	if err != nil {
		panic("spec: return type of " + sf.Name + ": " + err.Error())
	}
	return t
}

// applyUF applies an uninterpreted function with struct-shaped result: one UF per result leaf.
func (e *Exec) applyUF(name string, args []SV, ret types.Type) SV {
	var ts []*Term
	var sorts []string
	for _, a := range args {
		var ls []*Term
		leaves(a, &ls)
		for _, l := range ls {
			ts = append(ts, l)
			sorts = append(sorts, l.Sort)
		}
	}
	return build(ret, "", func(path, sort string, ty types.Type) *Term {
		t := ufun("spec."+name+sanitize(path), sorts, sort, ts...)
		// results of spec functions that stand for Go values respect the Go type's range
		if sort == SInt && ty != nil && !hasBound(t) {
			if b, ok := ty.Underlying().(*types.Basic); ok {
				if lo, hi, ok := intRange(b); ok {
					e.assume(and(le(bigLit(lo), t), le(t, bigLit(hi))))
				}
			}
		}
		return t
	})
}

// resolveTypeExpr resolves a type written in a contract (T, *T, []T, pkg.T, basic types) in the scope of pkg and
// of the packages it imports.
func resolveTypeExpr(pkg *types.Package, x ast.Expr) (types.Type, error) {
	switch n := x.(type) {
	case *ast.ParenExpr:
		return resolveTypeExpr(pkg, n.X)
	case *ast.StarExpr:
		t, err := resolveTypeExpr(pkg, n.X)
		if err != nil {
			return nil, err
		}
		return types.NewPointer(t), nil
	case *ast.ArrayType:
		t, err := resolveTypeExpr(pkg, n.Elt)
		if err != nil {
			return nil, err
		}
		return types.NewSlice(t), nil
	case *ast.Ident:
		if obj := types.Universe.Lookup(n.Name); obj != nil {
			if tn, ok := obj.(*types.TypeName); ok {
				return tn.Type(), nil
			}
		}
		if pkg != nil {
			if tn, ok := pkg.Scope().Lookup(n.Name).(*types.TypeName); ok {
				return tn.Type(), nil
			}
			var found types.Type
			for _, imp := range pkg.Imports() {
				if tn, ok := imp.Scope().Lookup(n.Name).(*types.TypeName); ok && strings.HasPrefix(imp.Path(), modPath) {
					found = tn.Type()
				}
			}
			if found != nil {
				return found, nil
			}
		}
		return nil, fmt.Errorf("unknown type %s", n.Name)
	case *ast.SelectorExpr:
		id, ok := n.X.(*ast.Ident)
		if !ok || pkg == nil {
			return nil, fmt.Errorf("bad qualified type")
		}
		for _, imp := range pkg.Imports() {
			if imp.Name() == id.Name {
				if tn, ok := imp.Scope().Lookup(n.Sel.Name).(*types.TypeName); ok {
					return tn.Type(), nil
				}
			}
		}
		return nil, fmt.Errorf("unknown type %s.%s", id.Name, n.Sel.Name)
	}
	return nil, fmt.Errorf("unsupported type expression %T", x)
}

func resolveTypeString(pkg *types.Package, s string) (types.Type, error) {
	x, err := parser.ParseExpr(s)
	if err != nil {
		return nil, err
	}
	return resolveTypeExpr(pkg, x)
}

// coerceArgs gives spec-level call arguments the parameter types of fn; a pointer passed where fn takes an interface
// is converted implicitly, as Go does.
func (e *Exec) coerceArgs(fn *ssa.Function, args []SV) {
	for i := range args {
		if i < len(fn.Params) {
			if pv, ok := args[i].(*PtrV); ok && pv.Addr != nil && types.IsInterface(fn.Params[i].Type()) {
				args[i] = &IfaceV{Ty: fn.Params[i].Type(), Tag: e.typeID(pv.Ty), Ref: pv.Addr}
				continue
			}
			args[i] = retype(args[i], fn.Params[i].Type())
		}
	}
}

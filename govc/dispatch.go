package main

// Closed-world dispatch for the module's small key interfaces. A type assertion to such an interface succeeds iff the
// dynamic type is one of the module's types that implement it, and a method call through it is the method of that
// type (executed by contract or inlined, one guarded copy of the state per implementer). Assumption (listed): no
// anonymous struct type and no type outside the module implements these interfaces (they are unexported in use:
// items of the module's own ordered containers).

import (
	"go/types"
	"sort"
	"strings"

	"golang.org/x/tools/go/ssa"
)

var dispatchIfaces = map[string]bool{"GroupKeyIface": true}

func dispatchable(t types.Type) (*types.Interface, bool) {
	n, ok := t.(*types.Named)
	if !ok || !dispatchIfaces[n.Obj().Name()] || n.Obj().Pkg() == nil || !strings.HasPrefix(n.Obj().Pkg().Path(), modPath) {
		return nil, false
	}
	it, ok := n.Underlying().(*types.Interface)
	return it, ok
}

var implMemo = map[*types.Interface][]types.Type{}

func implementers(prog *ssa.Program, it *types.Interface) []types.Type {
	if r, ok := implMemo[it]; ok {
		return r
	}
	var out []types.Type
	for _, p := range prog.AllPackages() {
		if !strings.HasPrefix(p.Pkg.Path(), modPath) {
			continue
		}
		for _, m := range p.Members {
			tm, ok := m.(*ssa.Type)
			if !ok {
				continue
			}
			t := tm.Type()
			if _, isIface := t.Underlying().(*types.Interface); isIface {
				continue
			}
			if nt, ok := t.(*types.Named); ok && nt.TypeParams().Len() > 0 {
				continue
			}
			if types.Implements(t, it) {
				out = append(out, t)
			}
			if pt := types.NewPointer(t); types.Implements(pt, it) {
				out = append(out, pt)
			}
		}
	}
	sort.Slice(out, func(i, j int) bool { return typeKey(out[i]) < typeKey(out[j]) })
	implMemo[it] = out
	return out
}

// assertsTo: the condition under which an interface value's dynamic type implements a dispatchable interface.
func (e *Exec) assertsTo(prog *ssa.Program, v *IfaceV, it *types.Interface) *Term {
	var cs []*Term
	for _, t := range implementers(prog, it) {
		cs = append(cs, eq(v.Tag, e.typeID(t)))
	}
	e.note("closed-world dispatch: only module types implement the module's key interfaces")
	return or(cs...)
}

// dispatchInvoke executes recv.m(args) for a receiver of a dispatchable interface type by case analysis on its
// dynamic type.
func (e *Exec) dispatchInvoke(fr *Frame, st *BState, x *ssa.Call, it *types.Interface) (SV, bool) {
	c := x.Call
	prog := fr.fn.Prog
	iv := e.val(fr, c.Value).(*IfaceV)
	var args []SV
	for _, a := range c.Args {
		args = append(args, e.val(fr, a))
	}
	impls := implementers(prog, it)
	if len(impls) == 0 || len(impls) > 16 {
		return nil, false
	}
	type arm struct {
		val SV
		st  *BState
	}
	var arms []arm
	for _, t := range impls {
		sel := prog.MethodSets.MethodSet(t).Lookup(c.Method.Pkg(), c.Method.Name())
		if sel == nil {
			return nil, false
		}
		fn := prog.MethodValue(sel)
		if fn == nil || len(fn.Blocks) == 0 {
			return nil, false
		}
		sub := st.clone()
		sub.reach = and(st.reach, eq(iv.Tag, e.typeID(t)))
		var recv SV
		if _, isPtr := t.Underlying().(*types.Pointer); isPtr {
			recv = &PtrV{Ty: t, Addr: iv.Ref}
		} else {
			recv = e.loadObj(sub, iv.Ref, t)
		}
		var r SV
		if fn.Synthetic != "" {
			vals, out := e.runInline(fr, fn, sub, append([]SV{recv}, args...), nil)
			sub = out
			if len(vals) == 1 {
				r = vals[0]
			} else {
				r = &TupleV{Elems: vals}
			}
		} else {
			r = e.callStatic(fr, sub, x, fn, append([]SV{recv}, args...), nil)
		}
		arms = append(arms, arm{r, sub})
	}
	res, out := arms[0].val, arms[0].st
	for _, a := range arms[1:] {
		res = mergeSV(a.st.reach, a.val, res, x.Type())
		out = e.mergeStates(out, a.st, a.st.reach)
	}
	st.reach, st.cells, st.heap, st.ghost, st.hepoch = out.reach, out.cells, out.heap, out.ghost, out.hepoch
	return res, true
}

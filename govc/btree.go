package main

import (
	"fmt"
	"strconv"
	"go/ast"
	"go/types"
	"strings"

	"golang.org/x/tools/go/ssa"
)

// Spike theory of google/btree.BTree: an ordered map from key class to the stored Item (tag, ref).
const (
	keyBtHas = "C|btree|has"
	keyBtTag = "C|btree|tag"
	keyBtRef = "C|btree|ref"
)

// groupKeyOf finds the []Value key a btree item carries: the item itself (GroupKey) or its first slice-typed field.
func (e *Exec) groupKeyOf(st *BState, t types.Type, payload SV) *SliceV {
	switch u := t.Underlying().(type) {
	case *types.Slice:
		return payload.(*SliceV)
	case *types.Pointer:
		obj := e.loadObj(st, payload.(*PtrV).Addr, u.Elem()).(*StructV)
		s := u.Elem().Underlying().(*types.Struct)
		for i := 0; i < s.NumFields(); i++ {
			if _, ok := s.Field(i).Type().Underlying().(*types.Slice); ok {
				return obj.Fields[i].(*SliceV)
			}
		}
	}
	panic("btree item without a group key: " + t.String())
}

func (e *Exec) itemClass(fr *Frame, st *BState, arg ssa.Value, sv SV) *Term {
	iv := sv.(*IfaceV)
	mi, ok := madeIface[iv]
	if !ok {
		panic("btree: item of unknown dynamic type")
	}
	return rowClass(e.groupKeyOf(st, mi.X.Type(), e.val(fr, mi.X)))
}

func (e *Exec) btreeCall(fr *Frame, st *BState, x *ssa.Call, f *ssa.Function, args []SV) (SV, bool) {
	s := f.String()
	if !strings.HasPrefix(s, "(*github.com/google/btree.BTree).") && s != "github.com/google/btree.New" {
		return nil, false
	}
	aIB, aII := arrSort(SInt, sortArrIB), arrSort(SInt, sortArrII)
	get := func(key string, sort string) *Term { return e.heapArr(st, key, sort) }
	switch strings.TrimPrefix(s, "(*github.com/google/btree.BTree).") {
	case "github.com/google/btree.New":
		t := e.allocAddr(st)
		st.heap[keyBtHas] = sto(get(keyBtHas, aIB), t, mk(sortArrIB, "((as const "+sortArrIB+") false)"))
		return &PtrV{Ty: x.Type(), Addr: t}, true
	case "Get":
		t := args[0].(*PtrV).Addr
		c := e.itemClass(fr, st, x.Call.Args[1], args[1])
		has := sel(sel(get(keyBtHas, aIB), t, sortArrIB), c, SBool)
		tag := sel(sel(get(keyBtTag, aII), t, sortArrII), c, SInt)
		ref := sel(sel(get(keyBtRef, aII), t, sortArrII), c, SInt)
		return &IfaceV{Ty: x.Type(), Tag: ite(has, tag, intLit(0)), Ref: ite(has, ref, intLit(0))}, true
	case "ReplaceOrInsert":
		t := args[0].(*PtrV).Addr
		c := e.itemClass(fr, st, x.Call.Args[1], args[1])
		iv := args[1].(*IfaceV)
		h, tg, rf := get(keyBtHas, aIB), get(keyBtTag, aII), get(keyBtRef, aII)
		old := &IfaceV{Ty: x.Type(), Tag: ite(sel(sel(h, t, sortArrIB), c, SBool), sel(sel(tg, t, sortArrII), c, SInt), intLit(0)), Ref: sel(sel(rf, t, sortArrII), c, SInt)}
		st.heap[keyBtHas] = sto(h, t, sto(sel(h, t, sortArrIB), c, tTrue))
		st.heap[keyBtTag] = sto(tg, t, sto(sel(tg, t, sortArrII), c, iv.Tag))
		st.heap[keyBtRef] = sto(rf, t, sto(sel(rf, t, sortArrII), c, iv.Ref))
		return old, true
	case "Delete":
		t := args[0].(*PtrV).Addr
		c := e.itemClass(fr, st, x.Call.Args[1], args[1])
		h := get(keyBtHas, aIB)
		old := &IfaceV{Ty: x.Type(), Tag: ite(sel(sel(h, t, sortArrIB), c, SBool), sel(sel(get(keyBtTag, aII), t, sortArrII), c, SInt), intLit(0)), Ref: sel(sel(get(keyBtRef, aII), t, sortArrII), c, SInt)}
		st.heap[keyBtHas] = sto(h, t, sto(sel(h, t, sortArrIB), c, tFalse))
		return old, true
	}
	return nil, false
}

// spec view of a btree: thas(tree,k), ttag(tree,k), tget(tree,k,TypeName) and typeid(TypeName)
func (env *SpecEnv) btreeSpec(name string, n *ast.CallExpr) (SV, bool) {
	e, st := env.e, env.st
	aIB, aII := arrSort(SInt, sortArrIB), arrSort(SInt, sortArrII)
	tree := func() *Term { return env.eval(n.Args[0]).(*PtrV).Addr }
	switch name {
	case "thas":
		return boolSV(sel(sel(e.heapArr(st, keyBtHas, aIB), tree(), sortArrIB), scal(env.eval(n.Args[1])), SBool)), true
	case "ttag":
		return intSV(sel(sel(e.heapArr(st, keyBtTag, aII), tree(), sortArrII), scal(env.eval(n.Args[1])), SInt)), true
	case "tget":
		tn := n.Args[2].(*ast.Ident).Name
		obj := env.pkg.Scope().Lookup(tn)
		if obj == nil {
			panic("spec: unknown type " + tn)
		}
		ref := sel(sel(e.heapArr(st, keyBtRef, aII), tree(), sortArrII), scal(env.eval(n.Args[1])), SInt)
		return &PtrV{Ty: types.NewPointer(obj.Type()), Addr: ref}, true
	case "typeidptr":
		t, err := resolveTypeExpr(env.pkg, n.Args[0])
		if err != nil {
			panic("spec: " + err.Error())
		}
		return intSV(e.typeID(types.NewPointer(t))), true
	case "typeid":
		t, err := resolveTypeExpr(env.pkg, n.Args[0])
		if err != nil {
			panic("spec: " + err.Error())
		}
		return intSV(e.typeID(t)), true
	case "extStr", "extInt", "extBool", "extF64":
		// the uninterpreted function that models an external library function (same symbol as the call rule uses)
		nm, _ := strconv.Unquote(n.Args[0].(*ast.BasicLit).Value)
		var ts []*Term
		var sorts []string
		for _, a := range n.Args[1:] {
			t := scal(env.eval(a))
			ts = append(ts, t)
			sorts = append(sorts, t.Sort)
		}
		ret := map[string]string{"extStr": SStr, "extInt": SInt, "extBool": SBool, "extF64": SF64}[name]
		rt := map[string]types.Type{"extStr": types.Typ[types.String], "extInt": types.Typ[types.Int], "extBool": types.Typ[types.Bool], "extF64": types.Typ[types.Float64]}[name]
		return &Scalar{T: ufun("ext."+nm, sorts, ret, ts...), Ty: rt}, true
	case "indexOf":
		return intSV(app(SInt, "str.indexof", scal(env.eval(n.Args[0])), scal(env.eval(n.Args[1])), intLit(0))), true
	case "substr":
		lo, hi := scal(env.eval(n.Args[1])), scal(env.eval(n.Args[2]))
		return &Scalar{T: app(SStr, "str.substr", scal(env.eval(n.Args[0])), lo, sub(hi, lo)), Ty: types.Typ[types.String]}, true
	case "fabs":
		return &Scalar{T: app(SF64, "fp.abs", scal(env.eval(n.Args[0]))), Ty: types.Typ[types.Float64]}, true
	case "fneg":
		return &Scalar{T: app(SF64, "fp.neg", scal(env.eval(n.Args[0]))), Ty: types.Typ[types.Float64]}, true
	case "fsqrt":
		return &Scalar{T: app(SF64, "fp.sqrt", mk("RoundingMode", "RNE"), scal(env.eval(n.Args[0]))), Ty: types.Typ[types.Float64]}, true
	case "ffloor":
		return &Scalar{T: app(SF64, "fp.roundToIntegral", mk("RoundingMode", "RTN"), scal(env.eval(n.Args[0]))), Ty: types.Typ[types.Float64]}, true
	case "fceil":
		return &Scalar{T: app(SF64, "fp.roundToIntegral", mk("RoundingMode", "RTP"), scal(env.eval(n.Args[0]))), Ty: types.Typ[types.Float64]}, true
	case "i2f":
		return &Scalar{T: app(SF64, "(_ to_fp 11 53)", mk("RoundingMode", "RNE"), app("Real", "to_real", scal(env.eval(n.Args[0])))), Ty: types.Typ[types.Float64]}, true
	case "fdiv":
		return &Scalar{T: app(SF64, "fp.div", mk("RoundingMode", "RNE"), scal(env.eval(n.Args[0])), scal(env.eval(n.Args[1]))), Ty: types.Typ[types.Float64]}, true
	case "floordiv":
		return intSV(app(SInt, "div", scal(env.eval(n.Args[0])), scal(env.eval(n.Args[1])))), true
	case "wrap64":
		return intSV(app(SInt, "wrap64", scal(env.eval(n.Args[0])))), true
	case "tdiv":
		return intSV(app(SInt, "tdiv", scal(env.eval(n.Args[0])), scal(env.eval(n.Args[1])))), true
	case "same":
		// identity of two values leaf by leaf (floats by bit pattern up to NaN payload: SMT =)
		var la, lb []*Term
		leaves(env.eval(n.Args[0]), &la)
		leaves(env.eval(n.Args[1]), &lb)
		var cs []*Term
		for i := range la {
			cs = append(cs, eq(la[i], lb[i]))
		}
		return boolSV(and(cs...)), true
	case "isNaN":
		return boolSV(app(SBool, "fp.isNaN", scal(env.eval(n.Args[0])))), true
	case "isZeroF":
		return boolSV(app(SBool, "fp.isZero", scal(env.eval(n.Args[0])))), true
	case "exit":
		// exit(call, "i", k): the k-th variable named i of the expanded function, in the state in which it returned
		ex := env.expansionOf(n.Args[0])
		nm, _ := strconv.Unquote(n.Args[1].(*ast.BasicLit).Value)
		k := 1
		if len(n.Args) > 2 {
			k, _ = strconv.Atoi(n.Args[2].(*ast.BasicLit).Value)
		}
		return ex.local(nm, k), true
	case "errmsg":
		return &Scalar{T: errMsg(env.eval(n.Args[0]).(*IfaceV)), Ty: types.Typ[types.String]}, true
	case "contains":
		return boolSV(app(SBool, "str.contains", scal(env.eval(n.Args[0])), scal(env.eval(n.Args[1])))), true
	case "sprintf":
		ts := []*Term{}
		sorts := []string{}
		for _, a := range n.Args {
			var ls []*Term
			leaves(env.eval(a), &ls)
			for _, l := range ls {
				ts = append(ts, l)
				sorts = append(sorts, l.Sort)
			}
		}
		name := "ext.sprintf"
		for _, s := range sorts[1:] {
			name += "." + sanitize(s)
		}
		return &Scalar{T: ufun(name, sorts, SStr, ts...), Ty: types.Typ[types.String]}, true
	case "cachetag":
		return intSV(ufun("ghost.cachetag", []string{SInt}, SInt, env.eval(n.Args[0]).(*PtrV).Addr)), true
	case "old":
		o := *env
		switch {
		case env.oldSt != nil:
			o.st = env.oldSt
			if env.oldFr != nil {
				o.fr = env.oldFr
			}
		case env.e.entry != nil:
			o.st = env.e.entry
		default:
			panic("spec: old() without an entry state")
		}
		return o.eval(n.Args[0]), true
	}
	return nil, false
}

var _ = fmt.Sprintf

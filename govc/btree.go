package main

import (
	"fmt"
	"strconv"
	"go/ast"
	"go/types"
	"strings"

	"golang.org/x/tools/go/ssa"
)

// Spike theory of google/btree.BTree: an ordered map from key class to the stored Item (tag, ref).
const (
	keyBtHas = "C|btree|has"
	keyBtTag = "C|btree|tag"
	keyBtRef = "C|btree|ref"
)

const keyBtLen = "C|btree|len"

// Key classes. Every btree item is mapped to an Int "key class" such that two items are equivalent under the
// item type's Less iff their classes are equal, and Less is < on the classes (an interpretation of the abstract
// order as integer rank — sound for any total order; the precondition that Less is a strict weak order is proved
// from the real Less methods under C09). The class of an item is derived from its key fields:
//   a []Value row (GroupKey, embedded or field)        -> cls.row(slice)          (uninterpreted)
//   a time.Time key (recordEventTimeBufferItem)        -> the instant in ns        (so order on classes = time order)
//   several key fields (watermarkTriggerKey, orderByItem, min/max/array keys) -> an uninterpreted function of the
//   field classes, named after the type.
func (e *Exec) classOfValue(st *BState, t types.Type, payload SV) *Term {
	switch u := t.Underlying().(type) {
	case *types.Slice:
		return rowClass(payload.(*SliceV))
	case *types.Pointer:
		obj := e.loadObj(st, payload.(*PtrV).Addr, u.Elem())
		return e.classOfStruct(u.Elem(), obj.(*StructV))
	case *types.Struct:
		return e.classOfStruct(t, payload.(*StructV))
	}
	panic("btree item without a key: " + t.String())
}

func (e *Exec) classOfStruct(t types.Type, obj *StructV) *Term {
	s := t.Underlying().(*types.Struct)
	var parts []*Term
	for i := 0; i < s.NumFields(); i++ {
		// an embedded GroupKey is the whole key (Less is promoted from it)
		if f := s.Field(i); f.Embedded() && f.Name() == "GroupKey" {
			return rowClass(obj.Fields[i].(*SliceV))
		}
	}
	for i := 0; i < s.NumFields(); i++ {
		f := s.Field(i)
		switch ft := f.Type().Underlying().(type) {
		case *types.Slice:
			if isValueSlice(ft) {
				parts = append(parts, rowClass(obj.Fields[i].(*SliceV)))
			}
		case *types.Struct:
			if isTime(f.Type()) {
				tv := obj.Fields[i].(*StructV)
				parts = append(parts, scal(tv.Fields[0]))
				if keyIncludesAux(t, f.Name()) {
					parts = append(parts, scal(tv.Fields[1]))
				}
			} else if isOctoValue(f.Type()) {
				// a single Value key: class of the value (uninterpreted over its leaves)
				parts = append(parts, valueClass(obj.Fields[i]))
			}
		}
	}
	if len(parts) == 0 {
		panic("btree item without a key: " + t.String())
	}
	if len(parts) == 1 {
		return parts[0]
	}
	return e.compositeClass(t, parts)
}

// compositeClass: the class of an item keyed by several fields is a combination of the field classes. In general an
// uninterpreted injective function (the projections cls.T.p<i> recover the parts: asserted at every ground class term
// built). For the item types listed in timeMajorKeys — an instant, then a row — the order on classes must be
// time-major (justified by the `lex` postcondition proved of the type's own Less method), so the combination is
// arithmetic: instant * 2^64 + row class, with row classes ranging over [0, 2^64) (an execution meets fewer than 2^64
// distinct rows; listed assumption). Then the projections are div / mod, the pairing is injective and order on classes
// is lexicographic by construction — no axioms.
func (e *Exec) compositeClass(t types.Type, parts []*Term) *Term {
	name := "cls." + sanitize(typeKey(t))
	if timeMajorKeys[typeBase(t)] && len(parts) == 2 {
		e.rowRangeAxiom()
		return add(mk(SInt, "*", parts[0], bigLit(pow64)), parts[1])
	}
	var sorts []string
	for range parts {
		sorts = append(sorts, SInt)
	}
	c := ufun(name, sorts, SInt, parts...)
	if e.clsSeen == nil {
		e.clsSeen = map[*Term]bool{}
	}
	if !e.clsSeen[c] && !hasBound(c) {
		e.clsSeen[c] = true
		for i, p := range parts {
			e.assume(eq(ufun(fmt.Sprintf("%s.p%d", name, i), []string{SInt}, SInt, c), p))
		}
	}
	return c
}

const pow64 = "18446744073709551616"

var timeMajorKeys = map[string]bool{"watermarkTriggerKey": true}

func typeBase(t types.Type) string {
	if n, ok := t.(*types.Named); ok {
		return n.Obj().Name()
	}
	return ""
}

// rowRangeAxiom: row classes lie in [0, 2^64) (asserted once per unit that uses a time-major class).
func (e *Exec) rowRangeAxiom() {
	if e.clsAxiom == nil {
		e.clsAxiom = map[string]bool{}
	}
	if e.clsAxiom["row"] {
		return
	}
	e.clsAxiom["row"] = true
	var vs []*Term
	var binder []string
	for i := 0; i < 3; i++ {
		nbound++
		v := mk(SInt, fmt.Sprintf("r!q%d", nbound))
		vs = append(vs, v)
		binder = append(binder, "("+v.Op+" Int)")
	}
	r := ufun("cls.row", []string{SInt, SInt, SInt}, SInt, vs...)
	pat := mk("attr", fmt.Sprintf(":pattern ((cls.row %s %s %s))", vs[0].Op, vs[1].Op, vs[2].Op))
	e.assume(mk(SBool, "forall", mk("binder", "("+strings.Join(binder, " ")+")"), mk(SBool, "!", and(le(intLit(0), r), lt(r, bigLit(pow64))), pat)))
	e.assumed = append(e.assumed, "btree theory: time-major item classes are instant * 2^64 + row class with row classes in [0, 2^64) — relies on the lex postcondition of the item type's Less")
}

func isOctoValue(t types.Type) bool {
	n, ok := t.(*types.Named)
	return ok && n.Obj().Name() == "Value" && n.Obj().Pkg() != nil && strings.HasSuffix(n.Obj().Pkg().Path(), "octosql/octosql")
}

func isValueSlice(s *types.Slice) bool { return isOctoValue(s.Elem()) }

// keyIncludesAux: item types whose Less compares a time.Time with == (so the zone/monotonic part takes part in the key).
func keyIncludesAux(t types.Type, field string) bool {
	return false // (watermarkTriggerKey compared its time with == before the fix recorded in known_findings.json)
}

func (e *Exec) itemClass(fr *Frame, st *BState, arg ssa.Value, sv SV) *Term {
	iv := sv.(*IfaceV)
	mi, ok := madeIface[iv]
	if !ok {
		panic("btree: item of unknown dynamic type")
	}
	return e.classOfValue(st, mi.X.Type(), e.val(fr, mi.X))
}

func btreeMethod(f *ssa.Function) (string, bool) {
	s := f.String()
	if s == "github.com/google/btree.New" {
		return "New", true
	}
	if strings.HasPrefix(s, "(*github.com/google/btree.BTree).") {
		return strings.TrimPrefix(s, "(*github.com/google/btree.BTree)."), true
	}
	return "", false
}

func (e *Exec) btreeCall(fr *Frame, st *BState, x *ssa.Call, f *ssa.Function, args []SV) (SV, bool) {
	m, ok := btreeMethod(f)
	if !ok {
		return nil, false
	}
	aIB, aII := arrSort(SInt, sortArrIB), arrSort(SInt, sortArrII)
	get := func(key string, sort string) *Term { return e.heapArr(st, key, sort) }
	hasAt := func(t, c *Term) *Term { return sel(sel(get(keyBtHas, aIB), t, sortArrIB), c, SBool) }
	tagAt := func(t, c *Term) *Term { return sel(sel(get(keyBtTag, aII), t, sortArrII), c, SInt) }
	refAt := func(t, c *Term) *Term { return sel(sel(get(keyBtRef, aII), t, sortArrII), c, SInt) }
	lenOf := func(t *Term) *Term { return sel(get(keyBtLen, sortArrII), t, SInt) }
	setLen := func(t, v *Term) { st.heap[keyBtLen] = sto(get(keyBtLen, sortArrII), t, v) }
	setHas := func(t, c, v *Term) {
		h := get(keyBtHas, aIB)
		st.heap[keyBtHas] = sto(h, t, sto(sel(h, t, sortArrIB), c, v))
	}
	qk := func() *Term {
		nbound++
		return mk(SInt, fmt.Sprintf("k!q%d", nbound))
	}
	forallK := func(k, body *Term) *Term { return mk(SBool, "forall", mk("binder", "(("+k.Op+" Int))"), body) }
	// extreme(t, min): a fresh key class that is the least (greatest) present one, and whether the tree is empty
	extreme := func(t *Term, min bool) (*Term, *Term) {
		c := e.fresh("bt.ext", SInt)
		k := qk()
		empty := forallK(k, not(hasAt(t, k)))
		k2 := qk()
		var bnd *Term
		if min {
			bnd = le(c, k2)
		} else {
			bnd = le(k2, c)
		}
		e.assume(implies(st.reach, or(empty, and(hasAt(t, c), forallK(k2, implies(hasAt(t, k2), bnd))))))
		e.assume(implies(st.reach, eq(eq(lenOf(t), intLit(0)), empty)))
		return c, empty
	}
	switch m {
	case "New":
		t := e.allocAddr(st)
		st.heap[keyBtHas] = sto(get(keyBtHas, aIB), t, mk(sortArrIB, "((as const "+sortArrIB+") false)"))
		setLen(t, intLit(0))
		return &PtrV{Ty: x.Type(), Addr: t}, true
	case "Get", "Has":
		t := args[0].(*PtrV).Addr
		c := e.itemClass(fr, st, x.Call.Args[1], args[1])
		has := hasAt(t, c)
		if m == "Has" {
			return boolSV(has), true
		}
		return &IfaceV{Ty: x.Type(), Tag: ite(has, tagAt(t, c), intLit(0)), Ref: ite(has, refAt(t, c), intLit(0))}, true
	case "ReplaceOrInsert":
		t := args[0].(*PtrV).Addr
		c := e.itemClass(fr, st, x.Call.Args[1], args[1])
		iv := args[1].(*IfaceV)
		was := hasAt(t, c)
		old := &IfaceV{Ty: x.Type(), Tag: ite(was, tagAt(t, c), intLit(0)), Ref: refAt(t, c)}
		setLen(t, add(lenOf(t), ite(was, intLit(0), intLit(1))))
		setHas(t, c, tTrue)
		tg, rf := get(keyBtTag, aII), get(keyBtRef, aII)
		st.heap[keyBtTag] = sto(tg, t, sto(sel(tg, t, sortArrII), c, iv.Tag))
		st.heap[keyBtRef] = sto(rf, t, sto(sel(rf, t, sortArrII), c, iv.Ref))
		return old, true
	case "Delete":
		t := args[0].(*PtrV).Addr
		c := e.itemClass(fr, st, x.Call.Args[1], args[1])
		was := hasAt(t, c)
		old := &IfaceV{Ty: x.Type(), Tag: ite(was, tagAt(t, c), intLit(0)), Ref: refAt(t, c)}
		setLen(t, sub(lenOf(t), ite(was, intLit(1), intLit(0))))
		setHas(t, c, tFalse)
		return old, true
	case "Len":
		t := args[0].(*PtrV).Addr
		k := qk()
		e.assume(implies(st.reach, and(le(intLit(0), lenOf(t)), le(lenOf(t), bigLit("MAX64")), eq(eq(lenOf(t), intLit(0)), forallK(k, not(hasAt(t, k)))))))
		return intSV(lenOf(t)), true
	case "Min", "Max", "DeleteMin", "DeleteMax":
		t := args[0].(*PtrV).Addr
		c, empty := extreme(t, m == "Min" || m == "DeleteMin")
		res := &IfaceV{Ty: x.Type(), Tag: ite(empty, intLit(0), tagAt(t, c)), Ref: ite(empty, intLit(0), refAt(t, c))}
		if strings.HasPrefix(m, "Delete") {
			setLen(t, sub(lenOf(t), ite(empty, intLit(0), intLit(1))))
			h := get(keyBtHas, aIB)
			st.heap[keyBtHas] = sto(h, t, ite(empty, sel(h, t, sortArrIB), sto(sel(h, t, sortArrIB), c, tFalse)))
		}
		st.ghost["$btkey"] = intSV(c)
		ghostTypes["$btkey"] = types.Typ[types.Int]
		return res, true
	case "Ascend":
		return e.ascend(fr, st, x, args), true
	}
	return nil, false
}

// spec view of a btree: thas(tree,k), ttag(tree,k), tget(tree,k,TypeName) and typeid(TypeName)
func (env *SpecEnv) btreeSpec(name string, n *ast.CallExpr) (SV, bool) {
	e, st := env.e, env.st
	aIB, aII := arrSort(SInt, sortArrIB), arrSort(SInt, sortArrII)
	tree := func() *Term { return env.eval(n.Args[0]).(*PtrV).Addr }
	switch name {
	case "calls":
		nm := n.Args[0].(*ast.Ident).Name
		if v, ok := st.ghost["$calls."+nm]; ok {
			return v, true
		}
		return intSV(intLit(0)), true
	case "lastrecv":
		nm := n.Args[0].(*ast.Ident).Name
		if v, ok := st.ghost["$lastrecv."+nm]; ok {
			return v, true
		}
		panic(fmt.Sprintf("lastrecv(%s): no call of that method before this point", nm))
	case "lastres":
		nm := n.Args[0].(*ast.Ident).Name
		if v, ok := st.ghost["$lastres."+nm]; ok {
			return v, true
		}
		// no call on this path (e.g. the clause is evaluated at an early return): an arbitrary error value — clauses
		// about it are guarded by the condition under which the call happens
		return e.freshSV(types.Universe.Lookup("error").Type(), "lastres.none."+nm, st.reach, false), true
	case "lastarg":
		nm := n.Args[0].(*ast.Ident).Name
		idx := n.Args[1].(*ast.BasicLit).Value
		if v, ok := st.ghost["$lastarg."+nm+"."+idx]; ok {
			return v, true
		}
		panic(fmt.Sprintf("lastarg(%s, %s): no call of that method before this point", nm, idx))
	case "callsAtLastMeta":
		nm := n.Args[0].(*ast.Ident).Name
		if v, ok := st.ghost["$callsAtMeta."+nm]; ok {
			return v, true
		}
		return intSV(intLit(0)), true
	case "produceFailed":
		if v, ok := st.ghost["$produceFailed"]; ok {
			return v, true
		}
		return boolSV(tFalse), true
	case "selected":
		if v, ok := st.ghost["$selected"]; ok {
			return v, true
		}
		return intSV(intLit(-1)), true
	case "outAtLastMeta":
		if v, ok := st.ghost["$outAtMeta"]; ok {
			return v, true
		}
		return intSV(intLit(0)), true
	case "iref":
		return intSV(env.eval(n.Args[0]).(*IfaceV).Ref), true
	case "itag":
		return intSV(env.eval(n.Args[0]).(*IfaceV).Tag), true
	case "asptr":
		// asptr(x, T): the pointer held by the interface value x, viewed as *T (meaningful when itag(x) == typeidptr(T))
		t, err := resolveTypeExpr(env.pkg, n.Args[1])
		if err != nil {
			panic("spec: " + err.Error())
		}
		return &PtrV{Ty: types.NewPointer(t), Addr: env.eval(n.Args[0]).(*IfaceV).Ref}, true
	case "deref":
		return env.deref(env.eval(n.Args[0])), true
	case "tlen":
		return intSV(sel(e.heapArr(st, keyBtLen, sortArrII), tree(), SInt)), true
	case "lastkey":
		// the key class chosen by the latest Min/Max/DeleteMin/DeleteMax or visited by the running Ascend
		if v, ok := st.ghost["$btkey"]; ok {
			return v, true
		}
		panic("spec: lastkey() before any Min/Max/Ascend")
	case "ascbound":
		if v, ok := st.ghost["$ascbound"]; ok {
			return v, true
		}
		panic("spec: ascbound() outside an Ascend")
	case "stopped":
		if v, ok := st.ghost["$ascstopped"]; ok {
			return v, true
		}
		return boolSV(tFalse), true
	case "kpair":
		// kpair(T, a, b, ...): the class of a T item whose key parts have the given classes
		t, err := resolveTypeExpr(env.pkg, n.Args[0])
		if err != nil {
			panic("spec: " + err.Error())
		}
		var parts []*Term
		for _, a := range n.Args[1:] {
			parts = append(parts, scal(env.eval(a)))
		}
		return intSV(e.compositeClass(t, parts)), true
	case "kpart":
		// kpart(T, i, k): the i-th key part of class k of item type T
		t, err := resolveTypeExpr(env.pkg, n.Args[0])
		if err != nil {
			panic("spec: " + err.Error())
		}
		idx := n.Args[1].(*ast.BasicLit).Value
		if timeMajorKeys[typeBase(t)] {
			e.rowRangeAxiom()
			op := "div"
			if idx == "1" {
				op = "mod"
			}
			return intSV(mk(SInt, op, scal(env.eval(n.Args[2])), bigLit(pow64))), true
		}
		return intSV(ufun("cls."+sanitize(typeKey(t))+".p"+idx, []string{SInt}, SInt, scal(env.eval(n.Args[2])))), true
	case "keycls":
		// keycls(x): the key class of a btree item value or pointer
		v := env.eval(n.Args[0])
		var t types.Type
		switch x := v.(type) {
		case *PtrV:
			t = x.Ty
		case *SliceV:
			t = x.Ty
		case *StructV:
			t = x.Ty
		}
		return intSV(e.classOfValue(st, t, v)), true
	case "thas":
		return boolSV(sel(sel(e.heapArr(st, keyBtHas, aIB), tree(), sortArrIB), scal(env.eval(n.Args[1])), SBool)), true
	case "ttag":
		return intSV(sel(sel(e.heapArr(st, keyBtTag, aII), tree(), sortArrII), scal(env.eval(n.Args[1])), SInt)), true
	case "tget":
		tn := n.Args[2].(*ast.Ident).Name
		obj := env.pkg.Scope().Lookup(tn)
		if obj == nil {
			panic("spec: unknown type " + tn)
		}
		ref := sel(sel(e.heapArr(st, keyBtRef, aII), tree(), sortArrII), scal(env.eval(n.Args[1])), SInt)
		return &PtrV{Ty: types.NewPointer(obj.Type()), Addr: ref}, true
	case "typeidptr":
		t, err := resolveTypeExpr(env.pkg, n.Args[0])
		if err != nil {
			panic("spec: " + err.Error())
		}
		return intSV(e.typeID(types.NewPointer(t))), true
	case "typeid":
		t, err := resolveTypeExpr(env.pkg, n.Args[0])
		if err != nil {
			panic("spec: " + err.Error())
		}
		return intSV(e.typeID(t)), true
	case "extStr", "extInt", "extBool", "extF64":
		// the uninterpreted function that models an external library function (same symbol as the call rule uses)
		nm, _ := strconv.Unquote(n.Args[0].(*ast.BasicLit).Value)
		var ts []*Term
		var sorts []string
		for _, a := range n.Args[1:] {
			// a structured argument (e.g. a struct passed by value) contributes all its leaves
			var ls []*Term
			leaves(env.eval(a), &ls)
			for _, t := range ls {
				ts = append(ts, t)
				sorts = append(sorts, t.Sort)
			}
		}
		ret := map[string]string{"extStr": SStr, "extInt": SInt, "extBool": SBool, "extF64": SF64}[name]
		rt := map[string]types.Type{"extStr": types.Typ[types.String], "extInt": types.Typ[types.Int], "extBool": types.Typ[types.Bool], "extF64": types.Typ[types.Float64]}[name]
		return &Scalar{T: ufun("ext."+nm, sorts, ret, ts...), Ty: rt}, true
	case "built":
		// built(b): the content accumulated in the strings.Builder b (a *strings.Builder, or a local Builder variable)
		var p *PtrV
		if id, ok := n.Args[0].(*ast.Ident); ok {
			if _, isBound := env.bound[id.Name]; !isBound {
				for al := range st.cells {
					if al.Comment == id.Name && al.Parent() == env.fr.fn {
						if _, isPtr := al.Type().(*types.Pointer).Elem().Underlying().(*types.Pointer); !isPtr {
							p = &PtrV{LV: &LVal{Alloc: al}}
						}
					}
				}
			}
		}
		if p == nil {
			if id, ok := n.Args[0].(*ast.Ident); ok && env.fr.fn != nil {
				for _, blk := range env.fr.fn.Blocks {
					for _, ins := range blk.Instrs {
						if al, ok := ins.(*ssa.Alloc); ok && al.Comment == id.Name {
							if _, isPtr := al.Type().(*types.Pointer).Elem().Underlying().(*types.Pointer); !isPtr {
								if rv, ok := env.fr.regs[al].(*PtrV); ok {
									p = rv
								}
							}
						}
					}
				}
			}
		}
		if p == nil {
			p = env.eval(n.Args[0]).(*PtrV)
		}
		var a *Term
		if p.Addr != nil {
			a = p.Addr
		} else if p.LV != nil && p.LV.Alloc != nil {
			a = intLit(-1000000 - int64(p.LV.Alloc.Pos()))
		} else {
			panic("spec: built() of an unsupported builder location")
		}
		return &Scalar{T: sel(e.heapArr(st, "G|builder|content", arrSort(SInt, SStr)), a, SStr), Ty: types.Typ[types.String]}, true
	case "runeStr":
		return &Scalar{T: ufun("ext.runeString", []string{SInt}, SStr, scal(env.eval(n.Args[0]))), Ty: types.Typ[types.String]}, true
	case "bytesIndex":
		d := env.eval(n.Args[0]).(*SliceV)
		return intSV(ufun("ext.bytes.Index", []string{SInt, SInt, SInt, SStr}, SInt, d.Base, d.Off, d.Len, scal(env.eval(n.Args[1])))), true
	case "scanErr":
		a := env.eval(n.Args[0]).(*PtrV).Addr
		cnt := intLit(0)
		if v, ok := st.ghost["$scans"]; ok {
			cnt = scal(v)
		}
		return &IfaceV{Ty: types.Universe.Lookup("error").Type(), Tag: ufun("ext.bufio.Scanner.Err.tag", []string{SInt, SInt}, SInt, a, cnt), Ref: ufun("ext.bufio.Scanner.Err.ref", []string{SInt, SInt}, SInt, a, cnt)}, true
	case "scanText":
		a := env.eval(n.Args[0]).(*PtrV).Addr
		cnt := intLit(0)
		if v, ok := st.ghost["$scans"]; ok {
			cnt = scal(v)
		}
		return &Scalar{T: ufun("ext.bufio.Scanner.Text", []string{SInt, SInt}, SStr, a, cnt), Ty: types.Typ[types.String]}, true
	case "indexOf":
		return intSV(app(SInt, "str.indexof", scal(env.eval(n.Args[0])), scal(env.eval(n.Args[1])), intLit(0))), true
	case "substr":
		lo, hi := scal(env.eval(n.Args[1])), scal(env.eval(n.Args[2]))
		return &Scalar{T: app(SStr, "str.substr", scal(env.eval(n.Args[0])), lo, sub(hi, lo)), Ty: types.Typ[types.String]}, true
	case "fabs":
		return &Scalar{T: app(SF64, "fp.abs", scal(env.eval(n.Args[0]))), Ty: types.Typ[types.Float64]}, true
	case "fneg":
		return &Scalar{T: app(SF64, "fp.neg", scal(env.eval(n.Args[0]))), Ty: types.Typ[types.Float64]}, true
	case "fsqrt":
		return &Scalar{T: app(SF64, "fp.sqrt", mk("RoundingMode", "RNE"), scal(env.eval(n.Args[0]))), Ty: types.Typ[types.Float64]}, true
	case "ffloor":
		return &Scalar{T: app(SF64, "fp.roundToIntegral", mk("RoundingMode", "RTN"), scal(env.eval(n.Args[0]))), Ty: types.Typ[types.Float64]}, true
	case "fceil":
		return &Scalar{T: app(SF64, "fp.roundToIntegral", mk("RoundingMode", "RTP"), scal(env.eval(n.Args[0]))), Ty: types.Typ[types.Float64]}, true
	case "i2f":
		return &Scalar{T: app(SF64, "(_ to_fp 11 53)", mk("RoundingMode", "RNE"), app("Real", "to_real", scal(env.eval(n.Args[0])))), Ty: types.Typ[types.Float64]}, true
	case "fdiv":
		return &Scalar{T: app(SF64, "fp.div", mk("RoundingMode", "RNE"), scal(env.eval(n.Args[0])), scal(env.eval(n.Args[1]))), Ty: types.Typ[types.Float64]}, true
	case "floordiv":
		return intSV(app(SInt, "div", scal(env.eval(n.Args[0])), scal(env.eval(n.Args[1])))), true
	case "wrap64":
		return intSV(app(SInt, "wrap64", scal(env.eval(n.Args[0])))), true
	case "tdiv":
		return intSV(app(SInt, "tdiv", scal(env.eval(n.Args[0])), scal(env.eval(n.Args[1])))), true
	case "same":
		// identity of two values leaf by leaf (floats by bit pattern up to NaN payload: SMT =)
		var la, lb []*Term
		leaves(env.eval(n.Args[0]), &la)
		leaves(env.eval(n.Args[1]), &lb)
		var cs []*Term
		for i := range la {
			cs = append(cs, eq(la[i], lb[i]))
		}
		return boolSV(and(cs...)), true
	case "isNaN":
		return boolSV(app(SBool, "fp.isNaN", scal(env.eval(n.Args[0])))), true
	case "isZeroF":
		return boolSV(app(SBool, "fp.isZero", scal(env.eval(n.Args[0])))), true
	case "exit":
		// exit(call, "i", k): the k-th variable named i of the expanded function, in the state in which it returned
		ex := env.expansionOf(n.Args[0])
		nm, _ := strconv.Unquote(n.Args[1].(*ast.BasicLit).Value)
		k := 1
		if len(n.Args) > 2 {
			k, _ = strconv.Atoi(n.Args[2].(*ast.BasicLit).Value)
		}
		return ex.local(nm, k), true
	case "errmsg":
		return &Scalar{T: errMsg(env.eval(n.Args[0]).(*IfaceV)), Ty: types.Typ[types.String]}, true
	case "contains":
		return boolSV(app(SBool, "str.contains", scal(env.eval(n.Args[0])), scal(env.eval(n.Args[1])))), true
	case "sprintf":
		ts := []*Term{}
		sorts := []string{}
		for _, a := range n.Args {
			var ls []*Term
			leaves(env.eval(a), &ls)
			for _, l := range ls {
				ts = append(ts, l)
				sorts = append(sorts, l.Sort)
			}
		}
		name := "ext.sprintf"
		for _, s := range sorts[1:] {
			name += "." + sanitize(s)
		}
		return &Scalar{T: ufun(name, sorts, SStr, ts...), Ty: types.Typ[types.String]}, true
	case "cachetag":
		return intSV(ufun("ghost.cachetag", []string{SInt}, SInt, env.eval(n.Args[0]).(*PtrV).Addr)), true
	case "now":
		// inside old(...): evaluate in the current state (e.g. old(thas(t, now(cls(key)))) — the tree before, the key now)
		if env.nowEnv == nil {
			return env.eval(n.Args[0]), true
		}
		return env.nowEnv.eval(n.Args[0]), true
	case "outer":
		// outer(e): e in the state at the head of the current iteration of the loop that encloses this loop
		if env.outerSt == nil {
			panic("spec: outer() needs an enclosing loop")
		}
		o := *env
		if env.nowEnv == nil {
			o.nowEnv = env
		}
		o.st = env.outerSt
		return o.eval(n.Args[0]), true
	case "old":
		o := *env
		if env.nowEnv == nil {
			o.nowEnv = env
		}
		switch {
		case env.oldSt != nil:
			o.st = env.oldSt
			if env.oldFr != nil {
				o.fr = env.oldFr
			}
		case env.e.entry != nil:
			o.st = env.e.entry
		default:
			panic("spec: old() without an entry state")
		}
		return o.eval(n.Args[0]), true
	}
	return nil, false
}

var _ = fmt.Sprintf

package main

import (
	"fmt"
	"math"
	"os"
	"os/exec"
	"strconv"
	"strings"
)

// ---- tiny s-expression reader for (get-value ...) output ----

type sx struct {
	atom string
	list []*sx
}

func parseSx(s string) []*sx {
	pos := 0
	var parse func() *sx
	skip := func() {
		for pos < len(s) && (s[pos] == ' ' || s[pos] == '\n' || s[pos] == '\t' || s[pos] == '\r') {
			pos++
		}
	}
	parse = func() *sx {
		skip()
		if pos >= len(s) {
			return nil
		}
		if s[pos] == '(' {
			pos++
			n := &sx{}
			for {
				skip()
				if pos >= len(s) {
					return n
				}
				if s[pos] == ')' {
					pos++
					return n
				}
				n.list = append(n.list, parse())
			}
		}
		if s[pos] == '"' {
			st := pos
			pos++
			for pos < len(s) {
				if s[pos] == '"' {
					if pos+1 < len(s) && s[pos+1] == '"' {
						pos += 2
						continue
					}
					pos++
					break
				}
				pos++
			}
			return &sx{atom: s[st:pos]}
		}
		st := pos
		for pos < len(s) && !strings.ContainsRune(" \n\t\r()", rune(s[pos])) {
			pos++
		}
		return &sx{atom: s[st:pos]}
	}
	var out []*sx
	for {
		n := parse()
		if n == nil {
			return out
		}
		out = append(out, n)
	}
}

func (n *sx) String() string {
	if n.list == nil && n.atom != "" {
		return n.atom
	}
	var ps []string
	for _, c := range n.list {
		ps = append(ps, c.String())
	}
	return "(" + strings.Join(ps, " ") + ")"
}

// modelValue decodes an SMT value into a Go literal string for the given sort.
func modelInt(n *sx) (int64, bool) {
	if n.list == nil {
		v, err := strconv.ParseInt(n.atom, 10, 64)
		return v, err == nil
	}
	if len(n.list) == 2 && n.list[0].atom == "-" {
		v, err := strconv.ParseUint(n.list[1].atom, 10, 64)
		if err != nil {
			return 0, false
		}
		return int64(-int64(v)), true
	}
	return 0, false
}

func bitsOf(a string) (uint64, int) {
	if strings.HasPrefix(a, "#b") {
		v, _ := strconv.ParseUint(a[2:], 2, 64)
		return v, len(a) - 2
	}
	if strings.HasPrefix(a, "#x") {
		v, _ := strconv.ParseUint(a[2:], 16, 64)
		return v, 4 * (len(a) - 2)
	}
	return 0, 0
}

func modelFloatBits(n *sx) (uint64, bool) {
	if len(n.list) == 4 && n.list[0].atom == "fp" {
		s, _ := bitsOf(n.list[1].atom)
		e, _ := bitsOf(n.list[2].atom)
		m, _ := bitsOf(n.list[3].atom)
		return s<<63 | e<<52 | m, true
	}
	if len(n.list) == 4 && n.list[0].atom == "_" {
		switch n.list[1].atom {
		case "NaN":
			return math.Float64bits(math.NaN()), true
		case "+zero":
			return 0, true
		case "-zero":
			return 1 << 63, true
		case "+oo":
			return math.Float64bits(math.Inf(1)), true
		case "-oo":
			return math.Float64bits(math.Inf(-1)), true
		}
	}
	return 0, false
}

func modelString(n *sx) string {
	a := n.atom
	a = strings.TrimSuffix(strings.TrimPrefix(a, "\""), "\"")
	a = strings.ReplaceAll(a, "\"\"", "\"")
	// \u{XX} escapes
	var sb strings.Builder
	for i := 0; i < len(a); i++ {
		if strings.HasPrefix(a[i:], "\\u{") {
			j := strings.Index(a[i:], "}")
			v, _ := strconv.ParseUint(a[i+3:i+j], 16, 32)
			sb.WriteByte(byte(v)) // Go strings are bytes; code points > 255 are truncated (replay re-checks)
			i += j
			continue
		}
		sb.WriteByte(a[i])
	}
	return sb.String()
}

// ---- replay of a descriptor-closure obligation ----

type argModel struct {
	TypeID, Int, Dur, Ns      int64
	Float                     uint64
	Bool                      bool
	Str                       string
	ListLen, StructLen, TupLen int64
}

func goValueLit(a argModel) string {
	elems := func(n int64) string {
		if n > 16 {
			n = 16
		}
		var ps []string
		for i := int64(0); i < n; i++ {
			ps = append(ps, "octosql.NewInt(0)")
		}
		return "[]octosql.Value{" + strings.Join(ps, ", ") + "}"
	}
	var fs []string
	fs = append(fs, fmt.Sprintf("TypeID: octosql.TypeID(%d)", a.TypeID))
	fs = append(fs, fmt.Sprintf("Int: %d", a.Int))
	fs = append(fs, fmt.Sprintf("Float: math.Float64frombits(0x%x)", a.Float))
	fs = append(fs, fmt.Sprintf("Boolean: %v", a.Bool))
	fs = append(fs, fmt.Sprintf("Str: %q", a.Str))
	fs = append(fs, fmt.Sprintf("Time: time.Unix(0, 0).Add(time.Duration(%d))", clampNs(a.Ns)))
	fs = append(fs, fmt.Sprintf("Duration: time.Duration(%d)", a.Dur))
	if a.ListLen > 0 {
		fs = append(fs, "List: "+elems(a.ListLen))
	}
	if a.StructLen > 0 {
		fs = append(fs, "Struct: "+elems(a.StructLen))
	}
	if a.TupLen > 0 {
		fs = append(fs, "Tuple: "+elems(a.TupLen))
	}
	return "octosql.Value{" + strings.Join(fs, ", ") + "}"
}

func clampNs(v int64) int64 { return v }

// replayDescriptor builds and runs an in-package test for a sat model. leafNames are in build order per argument.
func replayDescriptor(d *Descriptor, kind string, nargs int, vals map[string]*sx, outIDs []int) (string, string) {
	var args []string
	for i := 0; i < nargs; i++ {
		get := func(leaf string) *sx { return vals[fmt.Sprintf("rv!%d!%s", i, leaf)] }
		var a argModel
		if v := get(".TypeID"); v != nil {
			a.TypeID, _ = modelInt(v)
		}
		if v := get(".Int"); v != nil {
			a.Int, _ = modelInt(v)
		}
		if v := get(".Float"); v != nil {
			a.Float, _ = modelFloatBits(v)
		}
		if v := get(".Boolean"); v != nil {
			a.Bool = v.atom == "true"
		}
		if v := get(".Str"); v != nil {
			a.Str = modelString(v)
		}
		if v := get(".Time.ns"); v != nil {
			a.Ns, _ = modelInt(v)
		}
		if v := get(".Duration"); v != nil {
			a.Dur, _ = modelInt(v)
		}
		if v := get(".List.len"); v != nil {
			a.ListLen, _ = modelInt(v)
		}
		if v := get(".Struct.len"); v != nil {
			a.StructLen, _ = modelInt(v)
		}
		if v := get(".Tuple.len"); v != nil {
			a.TupLen, _ = modelInt(v)
		}
		// keep the value well-formed for its TypeID (only the selected field matters)
		if a.TypeID != 7 {
			a.ListLen = 0
		}
		if a.TypeID != 8 {
			a.StructLen = 0
		}
		if a.TypeID != 9 {
			a.TupLen = 0
		}
		args = append(args, goValueLit(a))
	}
	var check string
	if strings.HasPrefix(kind, "nopanic") {
		check = `	fmt.Println("REPLAY: holds (no panic)")`
	} else {
		var alts []string
		for _, id := range outIDs {
			alts = append(alts, fmt.Sprintf("out.TypeID == octosql.TypeID(%d)", id))
		}
		check = fmt.Sprintf(`	if err == nil && !(%s) {
		fmt.Printf("REPLAY: violated: result TypeID %%v not in declared output type\n", out.TypeID)
	} else {
		fmt.Println("REPLAY: holds")
	}`, strings.Join(alts, " || "))
	}
	src := fmt.Sprintf(`package functions

import (
	"fmt"
	"math"
	"testing"
	"time"

	"github.com/cube2222/octosql/octosql"
)

var _ = math.Pi
var _ = time.Second

func TestGovcReplay(t *testing.T) {
	values := []octosql.Value{
		%s,
	}
	defer func() {
		if r := recover(); r != nil {
			fmt.Printf("REPLAY: violated: panic: %%v\n", r)
		}
	}()
	out, err := FunctionMap()[%q].Descriptors[%d].Function(values)
	_, _ = out, err
%s
}
`, strings.Join(args, ",\n\t\t"), d.Name, d.Index, check)
	dir, _ := os.MkdirTemp("/dev/shm", "govc-replay-")
	defer os.RemoveAll(dir)
	testFile := dir + "/zz_govc_replay_test.go"
	os.WriteFile(testFile, []byte(src), 0644)
	ov := fmt.Sprintf(`{"Replace": {"/repo/functions/zz_govc_replay_test.go": %q}}`, testFile)
	os.WriteFile(dir+"/ov.json", []byte(ov), 0644)
	cmd := exec.Command("go", "test", "-overlay", dir+"/ov.json", "-vet=off", "-timeout", "60s", "-count=1", "-v", "-run", "TestGovcReplay", "./functions/")
	cmd.Dir = "/repo"
	cmd.Env = append(os.Environ(), "GOFLAGS=-mod=mod", "GOPROXY=off", "GOSUMDB=off", "GOTOOLCHAIN=local")
	out, _ := cmd.CombinedOutput()
	verdict := "no REPLAY line"
	if os.Getenv("REPLAYDEBUG") != "" {
		fmt.Println(string(out))
		fmt.Println(src)
	}
	for _, l := range strings.Split(string(out), "\n") {
		if strings.HasPrefix(l, "REPLAY:") {
			verdict = l
		}
	}
	return verdict, src
}

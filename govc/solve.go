package main

import (
	"bytes"
	"context"
	"fmt"
	"os"
	"os/exec"
	"strings"
	"sync"
	"time"
)

type SolveResult struct {
	Verdict string // unsat | sat | unknown
	Solver  string
	Secs    float64
	Output  string            // full output of the deciding solver
	Tried   map[string]string // solver -> first line
}

type solverCfg struct {
	name string
	args func(file string, secs int, seed int) []string
}

var solverTable = []solverCfg{
	{"z3-new", func(f string, s, seed int) []string {
		return []string{"z3-new", fmt.Sprintf("-T:%d", s), fmt.Sprintf("smt.random_seed=%d", seed), fmt.Sprintf("sat.random_seed=%d", seed), f}
	}},
	{"z3-new/arith2", func(f string, s, seed int) []string {
		return []string{"z3-new", fmt.Sprintf("-T:%d", s), fmt.Sprintf("smt.random_seed=%d", seed+101), fmt.Sprintf("sat.random_seed=%d", seed+101), "smt.arith.solver=2", f}
	}},
	{"z3", func(f string, s, seed int) []string {
		return []string{"z3", fmt.Sprintf("-T:%d", s), fmt.Sprintf("smt.random_seed=%d", seed), f}
	}},
	{"cvc5", func(f string, s, seed int) []string {
		return []string{"cvc5", fmt.Sprintf("--tlimit=%d", s*1000), "--strings-exp", "--produce-models", fmt.Sprintf("--seed=%d", seed), f}
	}},
}

func runSolver(ctx context.Context, sc solverCfg, file string, secs, seed int) (string, string, float64) {
	t0 := time.Now()
	// The budget is CPU time (ulimit -t), so that a verdict does not depend on how loaded the machine is; the
	// solvers' own wall-clock limits and the context deadline are generous backstops only.
	a := sc.args(file, secs*wallFactor, seed)
	cctx, cancel := context.WithTimeout(ctx, time.Duration(secs*wallFactor+5)*time.Second)
	defer cancel()
	sh := append([]string{"-c", fmt.Sprintf("ulimit -t %d; exec \"$0\" \"$@\"", secs+1)}, a...)
	cmd := exec.CommandContext(cctx, "/bin/sh", sh...)
	var buf bytes.Buffer
	cmd.Stdout = &buf
	cmd.Stderr = &buf
	cmd.Run()
	s := buf.String()
	if ctx.Err() != nil {
		// the race was decided by another solver and this process was cancelled (its script may already be removed)
		return "unknown", s, time.Since(t0).Seconds()
	}
	first := strings.TrimSpace(strings.SplitN(strings.TrimSpace(s), "\n", 2)[0])
	if first != "sat" && first != "unsat" {
		if strings.Contains(first, "error") || strings.Contains(first, "Error") {
			first = "error"
			solverErrors.Store(sc.name+": "+strings.SplitN(s, "\n", 2)[0], true)
		} else {
			first = "unknown"
		}
	}
	return first, s, time.Since(t0).Seconds()
}

// solvePortfolio: z3-new first with a short head start; if it does not decide, z3 4.8 and cvc5 are raced with the
// remaining budget. unsat from any solver discharges; sat from any solver is a candidate counterexample.
func solvePortfolio(script string, secs, seed int) SolveResult {
	f, _ := os.CreateTemp(scratchDir(), "govc-*.smt2")
	f.WriteString(script)
	f.Close()
	defer os.Remove(f.Name())
	res := SolveResult{Tried: map[string]string{}, Verdict: "unknown"}
	t0 := time.Now()
	order := []int{0, 2, 3, 1}
	if seed%3 == 1 {
		order = []int{0, 3, 2, 1}
	}
	head := secs
	if head > 3 {
		head = 3
	}
	v, out, _ := runSolver(context.Background(), solverTable[order[0]], f.Name(), head, seed)
	res.Tried[solverTable[order[0]].name] = v
	if v == "sat" || v == "unsat" {
		res.Verdict, res.Solver, res.Output, res.Secs = v, solverTable[order[0]].name, out, time.Since(t0).Seconds()
		return res
	}
	// the race runs four solver processes: at most raceSlots races at a time, so that the time limits mean CPU time
	// and not time spent waiting for a core
	raceSem <- struct{}{}
	defer func() { <-raceSem }()
	ctx, cancel := context.WithCancel(context.Background())
	defer cancel()
	type r struct {
		name, v, out string
	}
	ch := make(chan r, 4)
	for _, i := range order {
		sc := solverTable[i]
		go func() {
			v, out, _ := runSolver(ctx, sc, f.Name(), secs, seed)
			ch <- r{sc.name, v, out}
		}()
	}
	for k := 0; k < len(order); k++ {
		x := <-ch
		res.Tried[x.name] = x.v
		if x.v == "unsat" || x.v == "sat" {
			res.Verdict, res.Solver, res.Output = x.v, x.name, x.out
			break
		}
	}
	res.Secs = time.Since(t0).Seconds()
	return res
}

var raceSem = make(chan struct{}, 4)

// solveQuick: the two z3 5.1 configurations only, raced for secs — for the cheap first attempts (ground-instance
// script, slices, case split), where a proof is found at once or not at all.
func solveQuick(script string, secs, seed int) SolveResult {
	f, _ := os.CreateTemp(scratchDir(), "govc-*.smt2")
	f.WriteString(script)
	f.Close()
	defer os.Remove(f.Name())
	res := SolveResult{Tried: map[string]string{}, Verdict: "unknown"}
	t0 := time.Now()
	quickSem <- struct{}{}
	defer func() { <-quickSem }()
	ctx, cancel := context.WithCancel(context.Background())
	defer cancel()
	type r struct{ name, v, out string }
	ch := make(chan r, 2)
	for _, i := range []int{0, 1} {
		sc := solverTable[i]
		go func() {
			v, out, _ := runSolver(ctx, sc, f.Name(), secs, seed)
			ch <- r{sc.name, v, out}
		}()
	}
	for k := 0; k < 2; k++ {
		x := <-ch
		res.Tried[x.name] = x.v
		if x.v == "unsat" || x.v == "sat" {
			res.Verdict, res.Solver, res.Output = x.v, x.name, x.out
			break
		}
	}
	res.Secs = time.Since(t0).Seconds()
	return res
}

var quickSem = make(chan struct{}, 7)

// wallFactor: wall-clock backstop as a multiple of the CPU budget.
const wallFactor = 6

var solverErrors sync.Map // malformed scripts are machinery errors, never violations

var scratch string

func scratchDir() string {
	if scratch == "" {
		d, err := os.MkdirTemp("/dev/shm", "govc-")
		if err != nil {
			d, _ = os.MkdirTemp("", "govc-")
		}
		scratch = d
	}
	return scratch
}

func cleanupScratch() {
	if scratch != "" {
		os.RemoveAll(scratch)
	}
}

// parallel runs f(i) for i in [0,n) on up to `workers` goroutines.
func parallel(n, workers int, f func(i int)) {
	var wg sync.WaitGroup
	sem := make(chan struct{}, workers)
	for i := 0; i < n; i++ {
		wg.Add(1)
		go func(i int) {
			defer wg.Done()
			sem <- struct{}{}
			defer func() { <-sem }()
			f(i)
		}(i)
	}
	wg.Wait()
}

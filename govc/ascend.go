package main

import (
	"fmt"
	"go/token"
	"go/types"
	"strings"

	"golang.org/x/tools/go/ssa"
)

var ascendCount = map[*ssa.Function]int{}

// ascend desugars tree.Ascend(callback) by google/btree's documented protocol: the callback is called once for every
// stored item, in ascending key order, until it returns false. The loop is cut at the user's `ascend N invariant`;
// `ascend N step` clauses are per-item transfer obligations (old() = state before the item, lastkey() = its class).
// Ghosts: ascbound() — every stored key below it has been visited, none at or above it; stopped() — the callback
// returned false. The callback must not modify the tree it iterates over (checked syntactically).
func (e *Exec) ascend(fr *Frame, st *BState, x *ssa.Call, args []SV) SV {
	ascendCount[fr.fn]++
	ord := ascendCount[fr.fn]
	cf, mc := traceClosure(x.Call.Args[1])
	if cf == nil {
		panic("Ascend with a callback that is not a function literal")
	}
	for _, b := range cf.Blocks {
		for _, ins := range b.Instrs {
			if c, ok := ins.(*ssa.Call); ok {
				if g, ok := c.Call.Value.(*ssa.Function); ok {
					if m, isBt := btreeMethod(g); isBt && (m == "ReplaceOrInsert" || strings.HasPrefix(m, "Delete")) {
						panic("Ascend callback modifies a btree")
					}
				}
			}
		}
	}
	t := args[0].(*PtrV).Addr
	aIB, aII := arrSort(SInt, sortArrIB), arrSort(SInt, sortArrII)
	hasAt := func(s *BState, c *Term) *Term { return sel(sel(e.heapArr(s, keyBtHas, aIB), t, sortArrIB), c, SBool) }
	ct := e.contractOf(fr.fn)
	var invs []Clause
	var steps []Clause
	if ct != nil {
		invs = ct.AscendInv[ord]
		steps = ct.AscendStep[ord]
	}
	// before the first visit ascbound() is a lower bound of the stored key classes (a finite tree has one)
	lo := e.fresh("ascend.lo", SInt)
	nbound++
	k0 := mk(SInt, fmt.Sprintf("k!q%d", nbound))
	e.assume(implies(st.reach, mk(SBool, "forall", mk("binder", "(("+k0.Op+" Int))"), implies(hasAt(st, k0), le(lo, k0)))))
	st.ghost["$ascbound"] = intSV(lo)
	ghostTypes["$ascbound"] = types.Typ[types.Int]
	st.ghost["$ascstopped"] = boolSV(tFalse)
	ghostTypes["$ascstopped"] = types.Typ[types.Bool]
	for i, inv := range invs {
		env := e.specEnv(fr, st, nil)
		e.obligeNamed(st, fmt.Sprintf("ascend%d.%s.init", ord, clauseLabel(inv, "inv", i)), x.Pos(), scal(env.evalGoal(inv.Expr)))
	}
	// havoc what the callback may write
	keys := map[string]bool{}
	writeKeys(cf, map[*ssa.Function]bool{}, keys)
	for _, k := range sortedHeapKeys(st.heap) {
		h := st.heap[k]
		for pre := range keys {
			if strings.HasPrefix(k, pre) {
				st.heap[k] = e.havocHeapKey(k, h, "ascend.")
				break
			}
		}
	}
	epochCounter++
	for pre := range keys {
		st.hepoch[pre] = epochCounter
	}
	cbCells := map[*ssa.Alloc]bool{}
	assignedCells(cf, map[*ssa.Function]bool{}, cbCells)
	for _, al := range sortedAllocs(cbCells) {
		if _, ok := st.cells[al]; ok {
			nv := e.freshSV(al.Type().(*types.Pointer).Elem(), "ascend."+al.Comment, st.reach, false)
			e.saneInput(st, al.Type().(*types.Pointer).Elem(), nv, tTrue)
			st.cells[al] = nv
		}
	}
	if keys["$frontier"] {
		old := e.frontier(st)
		nf := e.fresh("ascend.frontier", SInt)
		e.assume(le(old, nf))
		st.ghost["$frontier"] = intSV(nf)
	}
	// cells of the enclosing function captured by the callback are heap cells (already havoc'd by type); ghost
	// output traces may grow inside the callback
	for _, g := range []string{"OUT", "OUTM"} {
		if v, ok := st.ghost[g]; ok {
			sl := v.(*SliceV)
			n := e.fresh("ascend."+g+".len", SInt)
			e.assume(le(sl.Len, n))
			st.ghost[g] = &SliceV{Ty: sl.Ty, Base: sl.Base, Off: sl.Off, Len: n, Cap: sl.Cap}
			if usesProduce(cf) {
				et := sl.Ty.Underlying().(*types.Slice).Elem()
				oldLen := sl.Len
				build(et, "", func(path, sort string, _ types.Type) *Term {
					k := heapKey("A", et, path)
					arr := e.heapArr(st, k, arrSort(SInt, arrSort(SInt, sort)))
					na := e.fresh("ascend."+g+path, arrSort(SInt, sort))
					nbound++
					j := mk(SInt, fmt.Sprintf("j!q%d", nbound))
					oldInner := sel(arr, sl.Base, arrSort(SInt, sort))
					e.assume(mk(SBool, "forall", mk("binder", "(("+j.Op+" Int))"), implies(and(le(intLit(0), j), lt(j, oldLen)), eq(sel(na, j, sort), sel(oldInner, j, sort)))))
					st.heap[k] = sto(arr, sl.Base, na)
					return nil
				})
				if g == "OUT" {
					st.heap[netKey(g)] = e.fresh("ascend.net."+g, sortArrII)
				}
			}
		}
	}
	bound := e.fresh("ascend.bound", SInt)
	st.ghost["$ascbound"] = intSV(bound)
	for _, inv := range invs {
		env := e.specEnv(fr, st, nil)
		e.assume(implies(st.reach, scal(env.eval(inv.Expr))))
	}
	head := st.clone()
	arm := e.fresh("ascend.arm", SInt)
	// arm 0: visit the next item
	s := head.clone()
	s.reach = and(head.reach, eq(arm, intLit(0)))
	cur := e.fresh("ascend.cur", SInt)
	nbound++
	k2 := mk(SInt, fmt.Sprintf("k!q%d", nbound))
	e.assume(implies(s.reach, and(hasAt(s, cur), le(bound, cur))))
	e.assume(implies(s.reach, mk(SBool, "forall", mk("binder", "(("+k2.Op+" Int))"), implies(and(hasAt(s, k2), le(bound, k2)), le(cur, k2)))))
	s.ghost["$btkey"] = intSV(cur)
	ghostTypes["$btkey"] = types.Typ[types.Int]
	item := &IfaceV{Ty: cf.Params[0].Type(),
		Tag: sel(sel(e.heapArr(s, keyBtTag, aII), t, sortArrII), cur, SInt),
		Ref: sel(sel(e.heapArr(s, keyBtRef, aII), t, sortArrII), cur, SInt)}
	var binds []SV
	if mc != nil {
		binds = closures[mc]
	}
	e.oldStack = append(e.oldStack, head)
	vals, out := e.runInline(fr, cf, s, []SV{item}, binds)
	e.oldStack = e.oldStack[:len(e.oldStack)-1]
	cont := scal(vals[0])
	out.ghost["$ascbound"] = intSV(add(cur, intLit(1)))
	for i, sc := range steps {
		env := e.specEnv(fr, out, nil)
		env.oldSt = head
		env.bound["continues"] = boolSV(cont)
		e.obligeNamed(out, fmt.Sprintf("ascend%d.step.%s", ord, strings.TrimPrefix(clauseLabel(sc, "step", i)[len("step"):], ".")), token.NoPos, scal(env.evalGoal(sc.Expr)))
	}
	// the step clauses — each its own obligation above — serve as lemmas for the obligations generated after them
	// (preservation of the invariants, everything after the Ascend): assert, then assume
	for _, sc := range steps {
		env := e.specEnv(fr, out, nil)
		env.oldSt = head
		env.bound["continues"] = boolSV(cont)
		e.assume(implies(out.reach, scal(env.eval(sc.Expr))))
	}
	bs := out.clone()
	bs.reach = and(out.reach, cont)
	for i, inv := range invs {
		env := e.specEnv(fr, bs, nil)
		e.obligeNamed(bs, fmt.Sprintf("ascend%d.%s.preserved", ord, clauseLabel(inv, "inv", i)), token.NoPos, scal(env.evalGoal(inv.Expr)))
	}
	// exits: the callback said stop, or every stored key has been visited
	xs := out.clone()
	xs.reach = and(out.reach, not(cont))
	xs.ghost["$ascstopped"] = boolSV(tTrue)
	es := head.clone()
	es.reach = and(head.reach, eq(arm, intLit(1)))
	nbound++
	k3 := mk(SInt, fmt.Sprintf("k!q%d", nbound))
	e.assume(implies(es.reach, mk(SBool, "forall", mk("binder", "(("+k3.Op+" Int))"), implies(hasAt(es, k3), lt(k3, bound)))))
	es.ghost["$ascstopped"] = boolSV(tFalse)
	es.ghost["$btkey"] = intSV(intLit(0))
	mrg := e.mergeStates(xs, es, es.reach)
	st.reach, st.cells, st.heap, st.ghost = mrg.reach, mrg.cells, mrg.heap, mrg.ghost
	// exit clauses: facts about the state right after the Ascend — obligations here, lemmas from here on
	if ct != nil {
		for i, xc := range ct.AscendExit[ord] {
			env := e.specEnv(fr, st, nil)
			e.obligeNamed(st, fmt.Sprintf("ascend%d.exit.%s", ord, strings.TrimPrefix(clauseLabel(xc, "exit", i)[len("exit"):], ".")), x.Pos(), scal(env.evalGoal(xc.Expr)))
		}
		for _, xc := range ct.AscendExit[ord] {
			env := e.specEnv(fr, st, nil)
			e.assume(implies(st.reach, scal(env.eval(xc.Expr))))
		}
	}
	return &TupleV{}
}

// producesInto: which ghost output traces a function of the module may extend — it (or a module function it calls
// statically) calls a value of type ProduceFn / func(Record) error (OUT) or MetaSendFn (OUTM).
func producesInto(f *ssa.Function) (out, outm bool) {
	seen := map[*ssa.Function]bool{}
	var walk func(g *ssa.Function)
	walk = func(g *ssa.Function) {
		if seen[g] || len(g.Blocks) == 0 {
			return
		}
		seen[g] = true
		if g.Pkg != nil && !strings.HasPrefix(g.Pkg.Pkg.Path(), modPath) && g.Parent() == nil {
			return
		}
		for _, b := range g.Blocks {
			for _, ins := range b.Instrs {
				c, ok := ins.(*ssa.Call)
				if !ok || c.Call.IsInvoke() {
					continue
				}
				switch v := c.Call.Value.(type) {
				case *ssa.Function:
					walk(v)
					continue
				case *ssa.MakeClosure:
					walk(v.Fn.(*ssa.Function))
					continue
				case *ssa.Builtin:
					continue
				}
				t := c.Call.Value.Type()
				if namedIs(t, "octosql/execution", "MetaSendFn") {
					outm = true
				} else if namedIs(t, "octosql/execution", "ProduceFn") {
					out = true
				} else if sig, ok := t.Underlying().(*types.Signature); ok && sig.Params().Len() == 1 && namedIs(sig.Params().At(0).Type(), "octosql/execution", "Record") {
					out = true
				}
			}
		}
	}
	walk(f)
	return
}

func usesProduce(f *ssa.Function) bool {
	o, m := producesInto(f)
	return o || m
}

package main

import (
	"fmt"
	"os"
	"go/token"
	"go/types"
	"strings"

	"golang.org/x/tools/go/ssa"
)

const nodeRunMethod = "(github.com/cube2222/octosql/execution.Node).Run"

// ghost traces are slices with reserved negative backing-array ids.
var ghostBase = map[string]int64{"IN": -101, "OUT": -102, "OUTM": -103, "INM": -104}

func (e *Exec) ghostTrace(st *BState, name string, elem types.Type) *SliceV {
	if v, ok := st.ghost[name]; ok {
		return v.(*SliceV)
	}
	sl := &SliceV{Ty: types.NewSlice(elem), Base: intLit(ghostBase[name]), Off: intLit(0), Len: intLit(0), Cap: bigLit("MAX64")}
	ghostTypes[name] = sl.Ty
	st.ghost[name] = sl
	return sl
}

func (e *Exec) ghostAppend(st *BState, name string, elem types.Type, v SV) {
	sl := e.ghostTrace(st, name, elem)
	if name == "IN" || name == "OUT" {
		e.netUpdate(st, name, v)
	}
	if name == "OUTM" {
		// ghost: how many records had been produced when the latest metadata message was sent
		if o, ok := st.ghost["OUT"]; ok {
			st.ghost["$outAtMeta"] = intSV(o.(*SliceV).Len)
			ghostTypes["$outAtMeta"] = types.Typ[types.Int]
		}
		for k, v := range st.ghost {
			if strings.HasPrefix(k, "$calls.") {
				st.ghost["$callsAtMeta."+strings.TrimPrefix(k, "$calls.")] = v
				ghostTypes["$callsAtMeta."+strings.TrimPrefix(k, "$calls.")] = types.Typ[types.Int]
			}
		}
	}
	e.storeElem(st, sl, sl.Len, elem, v)
	// assumption (listed): traces are shorter than 2^63 events
	e.assume(implies(st.reach, lt(sl.Len, bigLit("MAX64"))))
	st.ghost[name] = &SliceV{Ty: sl.Ty, Base: sl.Base, Off: sl.Off, Len: add(sl.Len, intLit(1)), Cap: sl.Cap}
}

func namedIs(t types.Type, pkgSuffix, name string) bool {
	n, ok := t.(*types.Named)
	return ok && n.Obj().Name() == name && n.Obj().Pkg() != nil && strings.HasSuffix(n.Obj().Pkg().Path(), pkgSuffix)
}

// dynamicCall handles calls through produce/metaSend function values: ghost output traces.
func (e *Exec) dynamicCall(st *BState, x *ssa.Call, args []SV) (SV, bool) {
	t := x.Call.Value.Type()
	switch {
	case namedIs(t, "octosql/execution", "ProduceFn"):
		e.ghostAppend(st, "OUT", x.Call.Args[1].Type(), args[1])
	case namedIs(t, "octosql/execution", "MetaSendFn"):
		e.ghostAppend(st, "OUTM", x.Call.Args[1].Type(), args[1])
	default:
		// func(record Record) error: a produce function with its context already applied (ProduceFnApplyContext)
		sig, ok := t.Underlying().(*types.Signature)
		if ok && sig.Params().Len() == 1 && sig.Results().Len() == 1 && namedIs(sig.Params().At(0).Type(), "octosql/execution", "Record") {
			if _, has := st.ghost["OUT"]; has {
				e.ghostAppend(st, "OUT", x.Call.Args[0].Type(), args[0])
				rv := e.freshSV(x.Type(), "cb.err", st.reach, false)
				e.noteProduceResult(st, rv)
				return rv, true
			}
		}
		return nil, false
	}
	rv := e.freshSV(x.Type(), "cb.err", st.reach, false)
	e.noteProduceResult(st, rv)
	return rv, true
}

// noteProduceResult keeps the sticky ghost produceFailed(): some call of produce / metaSend made so far returned an error.
func (e *Exec) noteProduceResult(st *BState, rv SV) {
	iv, ok := rv.(*IfaceV)
	if !ok {
		return
	}
	old := tFalse
	if v, ok := st.ghost["$produceFailed"]; ok {
		old = scal(v)
	}
	st.ghost["$produceFailed"] = boolSV(or(old, not(eq(iv.Tag, intLit(0)))))
	ghostTypes["$produceFailed"] = types.Typ[types.Bool]
}

func traceClosure(v ssa.Value) (*ssa.Function, *ssa.MakeClosure) {
	for {
		switch x := v.(type) {
		case *ssa.ChangeType:
			v = x.X
		case *ssa.MakeClosure:
			return x.Fn.(*ssa.Function), x
		case *ssa.Function:
			return x, nil
		default:
			return nil, nil
		}
	}
}

// writeKeys: heap keys (by static type) that stores in f (and its static callees) may write.
func writeKeys(f *ssa.Function, seen map[*ssa.Function]bool, out map[string]bool) {
	if seen[f] || len(f.Blocks) == 0 {
		return
	}
	seen[f] = true
	instrWriteKeys(f.Blocks, nil, seen, out)
}

// instrWriteKeys collects the write keys of a set of blocks (all blocks of a function, or a loop body).
// Special keys: "$frontier" (allocates), "$OUT" / "$OUTM" (may call produce / metaSend), "$all" (unknown effects).
func instrWriteKeys(blocks []*ssa.BasicBlock, only map[*ssa.BasicBlock]bool, seen map[*ssa.Function]bool, out map[string]bool) {
	for _, b := range blocks {
		if only != nil && !only[b] {
			continue
		}
		for _, ins := range b.Instrs {
			switch x := ins.(type) {
			case *ssa.Store:
				if rootAlloc(x.Addr) != nil {
					continue
				}
				if freshBaseIn(x.Addr, map[ssa.Value]bool{}, only) {
					continue // a store into memory allocated by this function (for a loop frame: inside the loop body)
				}
				if os.Getenv("GOVC_DEBUG") != "" {
					fmt.Fprintf(os.Stderr, "  store key in %s: %s at %s\n", b.Parent().Name(), x.String(), b.Parent().Prog.Fset.Position(x.Pos()))
					var chain func(v ssa.Value, d int)
					chain = func(v ssa.Value, d int) {
						if d > 6 {
							return
						}
						fmt.Fprintf(os.Stderr, "    %*s%T %s = %s\n", d*2, "", v, v.Name(), v.String())
						switch y := v.(type) {
						case *ssa.IndexAddr:
							chain(y.X, d+1)
						case *ssa.FieldAddr:
							chain(y.X, d+1)
						case *ssa.UnOp:
							chain(y.X, d+1)
							if cell, ok := y.X.(*ssa.Alloc); ok {
								for _, ref := range *cell.Referrers() {
									if s2, ok := ref.(*ssa.Store); ok && s2.Addr == cell {
										chain(s2.Val, d+2)
									}
								}
							}
						case *ssa.Call:
							if len(y.Call.Args) > 0 {
								chain(y.Call.Args[0], d+1)
							}
						}
					}
					chain(x.Addr, 0)
				}
				addKeys(x.Addr, out)
			case *ssa.Alloc:
				if x.Heap {
					out["$frontier"] = true
				}
			case *ssa.MakeSlice, *ssa.MakeInterface, *ssa.MakeClosure:
				out["$frontier"] = true
			case *ssa.MapUpdate:
				out["M|"] = true // Go maps are separate objects (modelled abstractly); no slice or struct changes
			case *ssa.Call:
				if x.Call.IsInvoke() {
					continue // interface callees are assumed to modify only state of their own (listed assumption)
				}
				switch g := x.Call.Value.(type) {
				case *ssa.Builtin:
					switch g.Name() {
					case "append":
						out["$frontier"] = true
						if freshBaseIn(x.Call.Args[0], map[ssa.Value]bool{}, only) {
							continue // in-place growth of a slice this function allocated
						}
						if sl, ok := x.Type().Underlying().(*types.Slice); ok {
							out["A|"+typeKey(sl.Elem())+"|"] = true
						}
					case "copy":
						if freshBaseIn(x.Call.Args[0], map[ssa.Value]bool{}, only) {
							continue
						}
						if sl, ok := x.Call.Args[0].Type().Underlying().(*types.Slice); ok {
							out["A|"+typeKey(sl.Elem())+"|"] = true
						}
					}
				case *ssa.Function:
					if g.String() == "sort.Slice" {
						if mi, ok := x.Call.Args[0].(*ssa.MakeInterface); ok {
							if sl, ok := mi.X.Type().Underlying().(*types.Slice); ok && !freshBaseIn(mi.X, map[ssa.Value]bool{}, only) {
								out["A|"+typeKey(sl.Elem())+"|"] = true
							}
						}
						continue
					}
					if isHashmapMethod(g, "Put") || isHashmapMethod(g, "Remove") {
						out["C|hashmap|"] = true
					}
					if strings.HasPrefix(g.String(), "github.com/zyedidia/generic/hashmap.New[") {
						out["C|hashmap|"] = true
						out["$frontier"] = true
					}
					if m, isBt := btreeMethod(g); isBt {
						if m == "ReplaceOrInsert" || strings.HasPrefix(m, "Delete") {
							out["C|btree|"] = true
						}
						if m == "New" {
							out["C|btree|"] = true
							out["$frontier"] = true
						}
						if m == "Ascend" {
							if cf, _ := traceClosure(x.Call.Args[1]); cf != nil {
								writeKeys(cf, seen, out)
							}
						}
						continue
					}
					if strings.HasPrefix(g.String(), "(*github.com/zyedidia/generic/hashmap.Map[") {
						continue
					}
					if strings.HasPrefix(g.String(), "(*strings.Builder).Write") || g.String() == "(*strings.Builder).Reset" {
						out["G|builder|"] = true // the ghost content of string builders
					}
					if strings.Contains(g.String(), "github.com/valyala/fastjson.") {
						out["$frontier"] = true
						if strings.Contains(g.String(), "fastjson.Arena).New") {
							out["J|new"] = true // creates a value at a fresh address
						} else if strings.Contains(g.String(), "fastjson.Value).Set") && only == nil && newJSONValue(x.Call.Args[0], map[ssa.Value]bool{}) {
							out["J|new"] = true // mutates a value this very function created
						} else {
							out["J|"] = true // the ghost structure of JSON values under construction
						}
					}
					if _, ext := externs[g.String()]; !ext {
						if g.Pkg != nil && !strings.HasPrefix(g.Pkg.Pkg.Path(), modPath) && g.Parent() == nil {
							continue // library function without a model: abstracted at the call (result havoc)
						}
						writeKeys(g, seen, out)
					}
				case *ssa.MakeClosure:
					writeKeys(g.Fn.(*ssa.Function), seen, out)
				default:
					t := x.Call.Value.Type()
					if namedIs(t, "octosql/execution", "MetaSendFn") {
						out["$OUTM"] = true
					} else if namedIs(t, "octosql/execution", "ProduceFn") {
						out["$OUT"] = true
					} else if sig, ok := t.Underlying().(*types.Signature); ok && sig.Params().Len() == 1 && namedIs(sig.Params().At(0).Type(), "octosql/execution", "Record") {
						out["$OUT"] = true
					}
				}
			}
		}
	}
}

func addKeys(addr ssa.Value, out map[string]bool) {
	switch a := addr.(type) {
	case *ssa.FieldAddr:
		// root object type
		root := a.X
		for {
			if fa, ok := root.(*ssa.FieldAddr); ok {
				root = fa.X
				continue
			}
			break
		}
		if ia, ok := root.(*ssa.IndexAddr); ok {
			if sl, ok := ia.X.Type().Underlying().(*types.Slice); ok {
				out["A|"+typeKey(sl.Elem())+"|"] = true
				return
			}
		}
		out["H|"+typeKey(root.Type().Underlying().(*types.Pointer).Elem())+"|"] = true
	case *ssa.IndexAddr:
		if sl, ok := a.X.Type().Underlying().(*types.Slice); ok {
			out["A|"+typeKey(sl.Elem())+"|"] = true
		}
	default:
		out["H|"+typeKey(addr.Type().Underlying().(*types.Pointer).Elem())+"|"] = true
	}
}

var streamCount = map[*ssa.Function]int{}

// streamRun desugars src.Run(ctx, P, M) into a nondeterministic loop cut at the stream invariant.
func (e *Exec) streamRun(fr *Frame, st *BState, x *ssa.Call) SV {
	outerBody := 0
	c := x.Call
	streamCount[fr.fn]++
	ord := streamCount[fr.fn]
	// outer() in the stream's clauses: the head state of the loop that encloses the Run call, if any
	var outerHead *BState
	for l2, hs := range e.loopHeads {
		if l2.body[x.Block()] && hs != nil {
			if outerHead == nil || len(l2.body) < outerBody {
				outerHead, outerBody = hs, len(l2.body)
			}
		}
	}
	var invs []Clause
	if ct := e.contractOf(fr.fn); ct != nil {
		invs = ct.StreamInv[ord]
	}
	pf, pmc := traceClosure(c.Args[1])
	mf, mmc := traceClosure(c.Args[2])
	sig := c.Method.Type().(*types.Signature)
	prodSig := sig.Params().At(1).Type().Underlying().(*types.Signature)
	metaSig := sig.Params().At(2).Type().Underlying().(*types.Signature)
	recT := prodSig.Params().At(1).Type()
	msgT := metaSig.Params().At(1).Type()
	pctxT := prodSig.Params().At(0).Type()
	errT := x.Type()
	e.ghostTrace(st, "IN", recT)
	e.ghostTrace(st, "INM", msgT)
	e.ghostTrace(st, "OUT", recT)
	e.ghostTrace(st, "OUTM", msgT)
	// init
	for i, inv := range invs {
		env := e.specEnv(fr, st, nil)
		env.outerSt = outerHead
		e.obligeNamed(st, fmt.Sprintf("stream%d.%s.init", ord, clauseLabel(inv, "inv", i)), x.Pos(), scal(env.evalGoal(inv.Expr)))
	}
	// havoc what the callbacks may write + ghost traces
	keys := map[string]bool{}
	seen := map[*ssa.Function]bool{}
	if pf != nil {
		writeKeys(pf, seen, keys)
	}
	if mf != nil {
		writeKeys(mf, seen, keys)
	}
	var havocd []string
	for _, k := range sortedHeapKeys(st.heap) {
		h := st.heap[k]
		for pre := range keys {
			if strings.HasPrefix(k, pre) {
				st.heap[k] = e.havocHeapKey(k, h, "stream.")
				havocd = append(havocd, k)
				break
			}
		}
	}
	epochCounter++
	for pre := range keys {
		st.hepoch[pre] = epochCounter
	}
	// variables of the enclosing function that the callbacks assign
	cbCells := map[*ssa.Alloc]bool{}
	if pf != nil {
		assignedCells(pf, map[*ssa.Function]bool{}, cbCells)
	}
	if mf != nil {
		assignedCells(mf, map[*ssa.Function]bool{}, cbCells)
	}
	for _, a := range sortedAllocs(cbCells) {
		if _, ok := st.cells[a]; ok {
			nv := e.freshSV(a.Type().(*types.Pointer).Elem(), "stream."+a.Comment, st.reach, false)
			e.saneInput(st, a.Type().(*types.Pointer).Elem(), nv, tTrue)
			st.cells[a] = nv
		}
	}
	for _, g := range []string{"IN", "INM", "OUT", "OUTM"} {
		sl := st.ghost[g].(*SliceV)
		n := e.fresh("stream."+g+".len", SInt)
		// traces are append-only: what was recorded before this Run started stays (length and rows)
		e.assume(and(le(intLit(0), n), le(sl.Len, n)))
		st.ghost[g] = &SliceV{Ty: sl.Ty, Base: sl.Base, Off: sl.Off, Len: n, Cap: sl.Cap}
		et := sl.Ty.Underlying().(*types.Slice).Elem()
		oldLen := sl.Len
		build(et, "", func(path, sort string, _ types.Type) *Term {
			k := heapKey("A", et, path)
			arr := e.heapArr(st, k, arrSort(SInt, arrSort(SInt, sort)))
			na := e.fresh("stream."+g+path, arrSort(SInt, sort))
			if oldLen != intLit(0) {
				nbound++
				j := mk(SInt, fmt.Sprintf("j!q%d", nbound))
				oldInner := sel(arr, sl.Base, arrSort(SInt, sort))
				e.assume(mk(SBool, "forall", mk("binder", "(("+j.Op+" Int))"), implies(and(le(intLit(0), j), lt(j, oldLen)), eq(sel(na, j, sort), sel(oldInner, j, sort)))))
			}
			st.heap[k] = sto(arr, sl.Base, na)
			return nil
		})
	}
	for _, g := range []string{"IN", "OUT"} {
		st.heap[netKey(g)] = e.fresh("stream.net."+g, sortArrII)
	}
	// built-in facts about the ghost counts (true by construction of net): |net(T,k)| <= len(T)
	for _, g := range []string{"IN", "OUT"} {
		nbound++
		bv := mk(SInt, fmt.Sprintf("k!q%d", nbound))
		n := sel(st.heap[netKey(g)], bv, SInt)
		ln := st.ghost[g].(*SliceV).Len
		e.assume(mk(SBool, "forall", mk("binder", "(("+bv.Op+" Int))"), and(le(n, ln), le(app(SInt, "-", ln), n))))
	}
	for _, k := range sortedGhostKeys(st.ghost) {
		if strings.HasPrefix(k, "$calls.") || strings.HasPrefix(k, "$callsAtMeta.") || k == "$outAtMeta" {
			st.ghost[k] = intSV(e.fresh("stream."+k, SInt))
		}
		if _, ok := lastCallGhost(k); ok {
			st.ghost[k] = e.freshSV(ghostTypes[k], "stream."+k, st.reach, false)
		}
	}
	if keys["$frontier"] {
		old := e.frontier(st)
		nf := e.fresh("stream.frontier", SInt)
		e.assume(le(old, nf))
		st.ghost["$frontier"] = intSV(nf)
	}
	e.note(fmt.Sprintf("stream %d of %s: havoc %v", ord, fr.fn.Name(), havocd))
	for _, inv := range invs {
		env := e.specEnv(fr, st, nil)
		env.outerSt = outerHead
		e.assume(implies(st.reach, scal(env.eval(inv.Expr))))
	}
	if ct := e.contractOf(fr.fn); ct != nil {
		for _, a := range ct.StreamAssume[ord] {
			env := e.specEnv(fr, st, nil)
		env.outerSt = outerHead
			e.assume(implies(st.reach, scal(env.eval(a.Expr))))
		}
	}
	arm := e.fresh("stream.arm", SInt)
	post := st.clone()
	type exit struct {
		st  *BState
		err SV
	}
	var exits []exit
	runArm := func(k int64, f *ssa.Function, mc *ssa.MakeClosure, argT types.Type, inTrace string, cbArg ssa.Value) {
		s := post.clone()
		s.reach = and(post.reach, eq(arm, intLit(k)))
		ev := e.freshSV(argT, "stream.event", s.reach, true)
		e.assumeAllocated(s, argT, ev, s.reach)
		e.ghostAppend(s, inTrace, argT, ev)
		// input assumptions of the property (e.g. "valid changelog") hold after every delivered event
		if ct := e.contractOf(fr.fn); ct != nil {
			for _, a := range ct.StreamAssume[ord] {
				env := e.specEnv(fr, s, nil)
		env.outerSt = outerHead
				e.assume(implies(s.reach, scal(env.eval(a.Expr))))
			}
		}
		pctx := e.freshSV(pctxT, "stream.pctx", s.reach, false)
		var errv SV
		var out *BState
		if f != nil {
			var binds []SV
			if mc != nil {
				binds = closures[mc]
			}
			e.oldStack = append(e.oldStack, post)
			vals, o := e.runInline(fr, f, s, []SV{pctx, ev}, binds)
			e.oldStack = e.oldStack[:len(e.oldStack)-1]
			errv, out = vals[0], o
		} else {
			// unknown callback value passed through (e.g. the node's own metaSend): ghost output
			out = s
			name := "OUTM"
			if inTrace == "IN" {
				name = "OUT"
			}
			e.ghostAppend(out, name, argT, ev)
			errv = e.freshSV(errT, "cb.err", s.reach, false)
		}
		isErr := not(eq(errv.(*IfaceV).Tag, intLit(0)))
		// per-event transfer obligations: old() is the state at the loop head, stepErr the callback's result
		if ct := e.contractOf(fr.fn); ct != nil {
			for i, sc := range ct.StreamStep[ord][inTrace] {
				env := e.specEnv(fr, out, nil)
		env.outerSt = outerHead
				env.oldSt = post
				env.bound["stepErr"] = errv
				e.obligeNamed(out, fmt.Sprintf("stream%d.step[%s].%s", ord, inTrace, strings.TrimPrefix(clauseLabel(sc, "step", i)[len("step"):], ".")), token.NoPos, scal(env.evalGoal(sc.Expr)))
			}
		}
		// back edge: invariant preserved
		bs := out.clone()
		bs.reach = and(out.reach, not(isErr))
		for i, inv := range invs {
			env := e.specEnv(fr, bs, nil)
		env.outerSt = outerHead
			e.obligeNamed(bs, fmt.Sprintf("stream%d.%s.preserved[%s]", ord, clauseLabel(inv, "inv", i), inTrace), token.NoPos, scal(env.evalGoal(inv.Expr)))
		}
		// exit with the callback's error (wrapped): result non-nil
		xs := out.clone()
		xs.reach = and(out.reach, isErr)
		wrapped := e.freshSV(errT, "stream.err", xs.reach, false).(*IfaceV)
		e.assume(not(eq(wrapped.Tag, intLit(0))))
		// protocol: Run returns an error that wraps the callback's error (its message contains the callback's)
		e.assume(implies(xs.reach, app(SBool, "str.contains", errMsg(wrapped), errMsg(errv.(*IfaceV)))))
		xs.ghost["cbErr"] = errv
		exits = append(exits, exit{xs, wrapped})
	}
	runArm(0, pf, pmc, recT, "IN", c.Args[1])
	runArm(1, mf, mmc, msgT, "INM", c.Args[2])
	// arm 2: stream ends (nil) or the source fails on its own (non-nil)
	es := post.clone()
	es.reach = and(post.reach, eq(arm, intLit(2)))
	srcErr := e.freshSV(errT, "stream.srcErr", es.reach, true)
	es.ghost["cbErr"] = zeroValue(errT)
	exits = append(exits, exit{es, srcErr})
	ghostTypes["cbErr"] = errT
	// merge exits
	cur := exits[0].st
	res := exits[0].err
	for _, ex := range exits[1:] {
		res = mergeSV(ex.st.reach, ex.err, res, errT)
		cur = e.mergeStates(cur, ex.st, ex.st.reach)
	}
	st.reach, st.cells, st.heap, st.ghost = cur.reach, cur.cells, cur.heap, cur.ghost
	st.ghost["ended"] = boolSV(eq(arm, intLit(2)))
	ghostTypes["ended"] = types.Typ[types.Bool]
	st.ghost["runErr"] = res
	ghostTypes["runErr"] = errT
	return res
}


// freshBase: the memory v denotes (a slice, or an address into one / into an object) was allocated by the function
// v belongs to: a make / composite literal / new, a slice or element of such, an append to such, or a local variable
// that is only ever assigned such values.
func freshBase(v ssa.Value, seen map[ssa.Value]bool) bool { return freshBaseIn(v, seen, nil) }

// freshBaseIn: as freshBase, and (for loop frames) the allocation itself happens inside the given set of blocks, so
// the memory is new in every iteration.
func freshBaseIn(v ssa.Value, seen map[ssa.Value]bool, body map[*ssa.BasicBlock]bool) bool {
	if seen[v] {
		return true // cycle through a loop-carried variable: decided by the other assignments
	}
	seen[v] = true
	switch x := v.(type) {
	case *ssa.MakeSlice:
		return body == nil || body[x.Block()]
	case *ssa.Alloc:
		return x.Heap && (body == nil || body[x.Block()])
	case *ssa.Slice:
		return freshBaseIn(x.X, seen, body)
	case *ssa.IndexAddr:
		return freshBaseIn(x.X, seen, body)
	case *ssa.FieldAddr:
		return freshBaseIn(x.X, seen, body)
	case *ssa.Call:
		if b, ok := x.Call.Value.(*ssa.Builtin); ok && b.Name() == "append" {
			return freshBaseIn(x.Call.Args[0], seen, body)
		}
		return false
	case *ssa.UnOp:
		if x.Op != token.MUL {
			return false
		}
		cell, ok := x.X.(*ssa.Alloc)
		if !ok {
			return false
		}
		if cell.Heap {
			// a captured local variable: acceptable when the capturing closures never assign it
			for _, ref := range *cell.Referrers() {
				switch r := ref.(type) {
				case *ssa.Store, *ssa.UnOp, *ssa.DebugRef:
				case *ssa.MakeClosure:
					for bi, bv := range r.Bindings {
						if bv != cell {
							continue
						}
						fv := r.Fn.(*ssa.Function).FreeVars[bi]
						for _, fr := range *fv.Referrers() {
							if s2, ok := fr.(*ssa.Store); ok && s2.Addr == fv {
								return false
							}
							if _, isClosure := fr.(*ssa.MakeClosure); isClosure {
								return false
							}
						}
					}
				default:
					return false // address taken in some other way
				}
			}
		}
		// every value stored into the local variable is fresh
		n := 0
		for _, ref := range *cell.Referrers() {
			if stv, ok := ref.(*ssa.Store); ok && stv.Addr == cell {
				n++
				if c, isConst := stv.Val.(*ssa.Const); isConst && c.Value == nil {
					continue // nil
				}
				if !freshBaseIn(stv.Val, seen, body) {
					return false
				}
			}
		}
		return n > 0
	}
	return false
}

// newJSONValue: v is a fastjson value created by an arena constructor in the same function (directly or through a
// local variable that is only assigned such values).
func newJSONValue(v ssa.Value, seen map[ssa.Value]bool) bool {
	if seen[v] {
		return true
	}
	seen[v] = true
	switch x := v.(type) {
	case *ssa.Call:
		if g, ok := x.Call.Value.(*ssa.Function); ok {
			return strings.Contains(g.String(), "fastjson.Arena).New")
		}
	case *ssa.UnOp:
		if x.Op != token.MUL {
			return false
		}
		cell, ok := x.X.(*ssa.Alloc)
		if !ok || !cellLike(cell) {
			return false
		}
		n := 0
		for _, ref := range *cell.Referrers() {
			if stv, ok := ref.(*ssa.Store); ok && stv.Addr == cell {
				n++
				if !newJSONValue(stv.Val, seen) {
					return false
				}
			}
		}
		return n > 0
	}
	return false
}

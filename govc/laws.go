package main

import (
	"fmt"
	"go/types"
	"os"
	"time"

	"golang.org/x/tools/go/packages"
	"golang.org/x/tools/go/ssa"
	"golang.org/x/tools/go/ssa/ssautil"
)

// lawsMain: Compare/hash laws on the scalar TypeIDs, from the real SSA of octosql.Value.Compare.
func lawsMain() {
	t0 := time.Now()
	cfg := &packages.Config{Mode: packages.LoadAllSyntax, Dir: "/repo", BuildFlags: []string{"-tags=verif"}}
	pkgs, err := packages.Load(cfg, "github.com/cube2222/octosql/octosql")
	if err != nil {
		panic(err)
	}
	prog, spkgs := ssautil.AllPackages(pkgs, ssa.NaiveForm|ssa.GlobalDebug|ssa.InstantiateGenerics)
	prog.Build()
	pkg := spkgs[0]
	valueT := pkg.Type("Value").Type()
	cmpFn := prog.LookupMethod(valueT, pkg.Pkg, "Compare")
	hashFn := prog.LookupMethod(valueT, pkg.Pkg, "hash")
	fmt.Printf("loaded in %.1fs; Compare has %d blocks\n", time.Since(t0).Seconds(), len(cmpFn.Blocks))

	e := newExec("octosql.Value", prog.Fset)
	st := newState()
	mkVal := func(name string) *StructV {
		v := e.freshSV(valueT, name, tTrue, true).(*StructV)
		tid := scal(v.Fields[0])
		e.assume(and(le(intLit(0), tid), le(tid, intLit(6)))) // scalar TypeIDs only in this experiment
		return v
	}
	a, b, c := mkVal("a"), mkVal("b"), mkVal("c")
	call := func(fn *ssa.Function, args ...SV) *Term {
		vals, out := e.run(fn, st.clone(), args, nil, 0)
		_ = out
		return scal(vals[0])
	}
	nob := len(e.obls)
	ab := call(cmpFn, a, b)
	bc := call(cmpFn, b, c)
	ac := call(cmpFn, a, c)
	ba := call(cmpFn, b, a)
	aa := call(cmpFn, a, a)
	h := &Scalar{T: e.fresh("h", SInt), Ty: types.Typ[types.Uint64]}
	ha := call(hashFn, a, h)
	hb := call(hashFn, b, h)
	fmt.Printf("summaries built in %.1fs, safety obligations inside Compare/hash: %d\n", time.Since(t0).Seconds(), len(e.obls)-nob)
	tidA, tidB, tidC := scal(a.Fields[0]), scal(b.Fields[0]), scal(c.Fields[0])
	fa, fb, fc := scal(a.Fields[2]), scal(b.Fields[2]), scal(c.Fields[2])
	isF := func(t *Term) *Term { return eq(t, intLit(2)) }
	nan := func(f *Term) *Term { return app(SBool, "fp.isNaN", f) }
	anyNaN := or(and(isF(tidA), nan(fa)), and(isF(tidB), nan(fb)), and(isF(tidC), nan(fc)))
	zeroPair := and(isF(tidA), isF(tidB), app(SBool, "fp.isZero", fa), app(SBool, "fp.isZero", fb))
	bits := func(f *Term) *Term { return ufun("ext.math.Float64bits", []string{SF64}, SInt, f) }
	e.assume(eq(eq(bits(fa), bits(fb)), or(eq(fa, fb))))
	type law struct {
		name string
		goal *Term
		excl *Term
	}
	laws := []law{
		{"law.range", or(eq(ab, intLit(-1)), eq(ab, intLit(0)), eq(ab, intLit(1))), nil},
		{"law.reflexive", eq(aa, intLit(0)), nil},
		{"law.antisymmetric", eq(ab, app(SInt, "-", ba)), nil},
		{"law.transitive", implies(and(le(ab, intLit(0)), le(bc, intLit(0))), le(ac, intLit(0))), anyNaN},
		{"law.hashConsistent", implies(eq(ab, intLit(0)), eq(ha, hb)), or(anyNaN, zeroPair)},
	}
	var inputs []*Term
	for _, v := range []*StructV{a, b, c} {
		inputs = append(inputs, scal(v.Fields[0]), scal(v.Fields[1]), scal(v.Fields[2]))
	}
	for _, l := range laws {
		sc := script(e.assumes, l.goal, inputs)
		v, _, full, secs := solve(sc, 20)
		fmt.Printf("%-22s %-8s %.2fs\n", l.name, v, secs)
		if v == "sat" && os.Getenv("MODEL") != "" {
			fmt.Println(full)
		}
		if l.excl != nil {
			sc := script(append(append([]*Term{}, e.assumes...), not(l.excl)), l.goal, nil)
			v, _, _, secs := solve(sc, 20)
			fmt.Printf("%-22s %-8s %.2fs   (known-finding class excluded)\n", l.name, v, secs)
		}
	}
	for n := range e.notes {
		fmt.Println("note:", n)
	}
}

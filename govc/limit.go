package main

import (
	"fmt"
	"go/types"
	"os"
	"strings"
	"time"

	"golang.org/x/tools/go/packages"
	"golang.org/x/tools/go/ssa"
	"golang.org/x/tools/go/ssa/ssautil"
)

const nodeContracts = `
//@ spec evalVal(e Expression, ctx ExecutionContext) Value
//@ spec evalErr(e Expression, ctx ExecutionContext) error
//@ spec sameRec(a Record, b Record) bool = a.Retraction == b.Retraction && a.EventTime.ns == b.EventTime.ns && a.Values.base == b.Values.base && a.Values.off == b.Values.off && a.Values.len == b.Values.len

//@ func (*Limit).Run
//@   stream 1 invariant 0 <= i && i == len(IN) && len(OUT) == len(IN) && len(OUTM) == len(INM)
//@   stream 1 invariant limit.Int <= 0 || i < limit.Int
//@   stream 1 invariant forall(j, 0, len(OUT), sameRec(OUT[j], IN[j]))
//@   ensures limit.Int >= 0 ==> len(OUT) <= limit.Int
//@   ensures limit.Int > 0 ==> len(OUT) <= limit.Int
//@   ensures forall(j, 0, len(OUT), sameRec(OUT[j], IN[j]))
//@   ensures ended && result == nil ==> len(OUT) == len(IN)

//@ func (*Distinct).Run
//@   stream 1 assumes forallK(k, net(IN, k) >= 0)
//@   stream 1 invariant forallK(k, net(IN, k) >= 1 ==> has(recordCounts, k) && get(recordCounts, k).Count == net(IN, k) && net(OUT, k) == 1)
//@   stream 1 invariant forallK(k, net(IN, k) == 0 ==> !has(recordCounts, k) && net(OUT, k) == 0)
//@   stream 1 invariant forallK(k, has(recordCounts, k) ==> 0 < addr(get(recordCounts, k)) && addr(get(recordCounts, k)) < frontier())
//@   stream 1 invariant forallK(k1, forallK(k2, has(recordCounts, k1) && has(recordCounts, k2) && k1 != k2 ==> addr(get(recordCounts, k1)) != addr(get(recordCounts, k2))))
//@   ensures forallK(k, net(OUT, k) == ite(net(IN, k) >= 1, 1, 0))
//@   ensures cbErr != nil ==> result != nil

//@ spec ZERO() int = 0 - 62135596800000000000

//@ func (*maxDifferenceWatermarkGenerator).Run
//@   stream 1 assumes resolution.Duration > 0 && maxDifference.Duration >= 0
//@   stream 1 assumes len(IN) > 0 ==> 0 <= m.timeFieldIndex && m.timeFieldIndex < len(IN[len(IN)-1].Values)
//@   stream 1 assumes len(INM) > 0 ==> INM[len(INM)-1].Type == 0
//@   stream 1 invariant len(OUTM) == 0 ==> maxValue.ns == ZERO() && curWatermark.ns == ZERO()
//@   stream 1 invariant len(OUTM) > 0 ==> OUTM[len(OUTM)-1].Watermark.ns == curWatermark.ns && curWatermark.ns == maxValue.ns - maxDifference.Duration && OUTM[len(OUTM)-1].Type == 0
//@   stream 1 invariant forall(j, 1, len(OUTM), OUTM[j-1].Watermark.ns < OUTM[j].Watermark.ns)
//@   stream 1 invariant len(OUT) <= len(IN)
//@   ensures forall(j, 1, len(OUTM), OUTM[j-1].Watermark.ns < OUTM[j].Watermark.ns)
//@   ensures cbErr != nil ==> result != nil

//@ spec lastOut() Record = OUT[len(OUT)-1]
//@ spec lastIn() Record = IN[len(IN)-1]
//@ func (*tumble).Run
//@   stream 1 assumes windowLength.Duration > 0 && offset.Duration > 0 - 4611686018427387904 && offset.Duration < 4611686018427387904
//@   stream 1 assumes len(IN) > 0 ==> 0 <= t.timeFieldIndex && t.timeFieldIndex < len(lastIn().Values)
//@   stream 1 invariant len(OUT) == len(IN) && len(OUTM) == len(INM)
//@   stream 1 invariant len(OUT) > 0 ==> len(lastOut().Values) == len(lastIn().Values) + 2 && lastOut().Retraction == lastIn().Retraction && lastOut().EventTime.ns == lastIn().EventTime.ns
//@   stream 1 invariant len(OUT) > 0 ==> lastOut().Values[len(lastIn().Values)].TypeID == 5 && lastOut().Values[len(lastIn().Values)+1].TypeID == 5
//@   stream 1 invariant len(OUT) > 0 ==> lastOut().Values[len(lastIn().Values)].Time.ns <= lastIn().Values[t.timeFieldIndex].Time.ns && lastIn().Values[t.timeFieldIndex].Time.ns < lastOut().Values[len(lastIn().Values)+1].Time.ns
//@   stream 1 invariant len(OUT) > 0 ==> lastOut().Values[len(lastIn().Values)+1].Time.ns - lastOut().Values[len(lastIn().Values)].Time.ns == windowLength.Duration
//@   ensures cbErr != nil ==> result != nil

//@ func (*Filter).Run
//@   stream 1 invariant len(OUT) <= len(IN) && len(OUTM) == len(INM)
//@   stream 1 invariant forall(j, 0, len(OUT), exists(q, 0, len(IN), sameRec(OUT[j], IN[q])))
//@   ensures ended ==> result != nil || len(OUTM) == len(INM)
//@   ensures cbErr != nil ==> result != nil
`

func nodesMain() {
	t0 := time.Now()
	cfg := &packages.Config{Mode: packages.LoadAllSyntax, Dir: "/repo", BuildFlags: []string{"-tags=verif"}}
	if m := os.Getenv("MUTANT"); m != "" {
		kv := strings.SplitN(m, "=", 2)
		data, err := os.ReadFile(kv[1])
		if err != nil {
			panic(err)
		}
		cfg.Overlay = map[string][]byte{kv[0]: data}
	}
	pkgPath := "github.com/cube2222/octosql/execution/nodes"
	if p := os.Getenv("PKG"); p != "" {
		pkgPath = p
	}
	pkgs, err := packages.Load(cfg, pkgPath)
	if err != nil {
		panic(err)
	}
	prog, spkgs := ssautil.AllPackages(pkgs, ssa.NaiveForm|ssa.GlobalDebug|ssa.InstantiateGenerics)
	prog.Build()
	pkg := spkgs[0]
	cs := parseContracts(nodeContracts)
	namedTypes["Value"] = prog.ImportedPackage("github.com/cube2222/octosql/octosql").Type("Value").Type()
	fmt.Printf("loaded in %.1fs\n", time.Since(t0).Seconds())
	which := []string{"Limit", "Filter"}
	if len(os.Args) > 2 {
		which = os.Args[2:]
	}
	for _, tn := range which {
		T := pkg.Type(tn).Type()
		fn := prog.LookupMethod(types_NewPointer(T), pkg.Pkg, "Run")
		e := newExec(pkg.Pkg.Name()+".(*"+tn+").Run", prog.Fset)
		e.cs = cs
		e.pkg = pkg.Pkg
		c := cs.Funcs["(*"+tn+").Run"]
		e.contracts = map[*ssa.Function]*FuncContract{fn: c}
		st := newState()
		var args []SV
		for _, p := range fn.Params {
			args = append(args, e.freshSV(p.Type(), p.Name(), tTrue, true))
		}
		e.assume(lt(intLit(0), args[0].(*PtrV).Addr))
		{
			recT := prog.ImportedPackage("github.com/cube2222/octosql/execution").Type("Record").Type()
			msgT := prog.ImportedPackage("github.com/cube2222/octosql/execution").Type("MetadataMessage").Type()
			e.ghostTrace(st, "IN", recT)
			e.ghostTrace(st, "OUT", recT)
			e.ghostTrace(st, "INM", msgT)
			e.ghostTrace(st, "OUTM", msgT)
			zero := mk(sortArrII, "((as const "+sortArrII+") 0)")
			st.heap[netKey("IN")] = zero
			st.heap[netKey("OUT")] = zero
			st.ghost["ended"] = boolSV(tFalse)
			ghostTypes["ended"] = types.Typ[types.Bool]
			errT := types.Universe.Lookup("error").Type()
			st.ghost["cbErr"] = zeroValue(errT)
			ghostTypes["cbErr"] = errT
		}
		func() {
			defer func() {
				if r := recover(); r != nil {
					fmt.Println("  ENGINE PANIC:", r)
				}
			}()
			e.run(fn, st, args, nil, 0)
		}()
		counts := map[string]int{}
		for _, o := range e.obls {
			sc := script(e.assumes[:o.NAssum], o.Cond, nil)
			v, _, _, secs := solve(sc, 20)
			if v != "unsat" && v != "sat" {
				// undecided: look for a candidate counterexample without the quantified assumptions (to be replayed)
				var qf []*Term
				for _, a := range e.assumes[:o.NAssum] {
					if !hasBound(a) {
						qf = append(qf, a)
					}
				}
				v2, _, _, s2 := solve(script(qf, o.Cond, nil), 20)
				if v2 == "sat" {
					v = "sat*"
					secs += s2
				}
			}
			counts[v]++
			mark := ""
			if v != "unsat" {
				mark = "   <<<<"
				if os.Getenv("DUMP") != "" {
					os.WriteFile("/dev/shm/"+sanitize(o.Name)+".smt2", []byte(sc), 0644)
				}
			}
			fmt.Printf("  %-8s %-64s %.2fs%s\n", v, o.Name, secs, mark)
		}
		fmt.Println(tn, counts)
		for n := range e.notes {
			fmt.Println("  note:", n)
		}
	}
}

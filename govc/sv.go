package main

import (
	"fmt"
	"go/types"
	"strings"

	"golang.org/x/tools/go/ssa"
)

// SV is a symbolic Go value, shaped like its Go type.
type SV interface{}

type Scalar struct {
	T  *Term
	Ty types.Type
}
type StructV struct {
	Ty     types.Type // named or struct type
	Fields []SV
}
type SliceV struct {
	Ty                  types.Type // slice type
	Base, Off, Len, Cap *Term
}
type IfaceV struct {
	Ty       types.Type
	Tag, Ref *Term
}
type PtrV struct {
	Ty   types.Type // pointer type
	Addr *Term      // heap address (Int) when dynamic
	LV   *LVal      // static l-value when known
	Nil  *Term      // for static pointers: the condition under which the pointer is nil instead (nil = never)
}

func (p *PtrV) nilCond() *Term {
	if p.LV != nil {
		if p.Nil == nil {
			return tFalse
		}
		return p.Nil
	}
	return eq(p.Addr, intLit(0))
}

func isNilPtrConst(p *PtrV) bool { return p.LV == nil && p.Addr != nil && p.Addr == intLit(0) }
type ArrayV struct {
	Ty    types.Type
	Elems []SV
}
type TupleV struct{ Elems []SV }

// LVal is a statically resolved location.
type LVal struct {
	Alloc *ssa.Alloc // local cell root
	Heap  *Term      // or heap address of a T object (H_T)
	HeapT types.Type
	Sl    *SliceV // or slice element root
	Idx   *Term
	Path  []int // field path below the root
}

func isTime(t types.Type) bool {
	n, ok := t.(*types.Named)
	return ok && n.Obj().Pkg() != nil && n.Obj().Pkg().Path() == "time" && n.Obj().Name() == "Time"
}

func sortOfBasic(b *types.Basic) string {
	switch {
	case b.Info()&types.IsBoolean != 0:
		return SBool
	case b.Info()&types.IsInteger != 0:
		return SInt
	case b.Info()&types.IsFloat != 0:
		return SF64
	case b.Info()&types.IsString != 0:
		return SStr
	}
	if b.Kind() == types.UnsafePointer {
		return SInt
	}
	return SInt
}

func intRange(b *types.Basic) (lo, hi string, ok bool) {
	switch b.Kind() {
	case types.Int, types.Int64:
		return "MIN64", "MAX64", true
	case types.Int32:
		return "(- 2147483648)", "2147483647", true
	case types.Int16:
		return "(- 32768)", "32767", true
	case types.Int8:
		return "(- 128)", "127", true
	case types.Uint, types.Uint64, types.Uintptr:
		return "0", "18446744073709551615", true
	case types.Uint32:
		return "0", "4294967295", true
	case types.Uint16:
		return "0", "65535", true
	case types.Uint8:
		return "0", "255", true
	}
	return "", "", false
}

// leafFn creates the term for one scalar leaf; kind tells what it is.
type leafFn func(path string, sort string, ty types.Type) *Term

// build constructs an SV of Go type t, asking f for every scalar leaf.
func build(t types.Type, path string, f leafFn) SV {
	if isTime(t) {
		return &StructV{Ty: t, Fields: []SV{
			&Scalar{T: f(path+".ns", SInt, nil), Ty: nil},
			&Scalar{T: f(path+".aux", SInt, nil), Ty: nil},
		}}
	}
	switch u := t.Underlying().(type) {
	case *types.Basic:
		return &Scalar{T: f(path, sortOfBasic(u), t), Ty: t}
	case *types.Struct:
		sv := &StructV{Ty: t}
		for i := 0; i < u.NumFields(); i++ {
			sv.Fields = append(sv.Fields, build(u.Field(i).Type(), fmt.Sprintf("%s.%s", path, u.Field(i).Name()), f))
		}
		return sv
	case *types.Slice:
		return &SliceV{Ty: t, Base: f(path+".base", SInt, nil), Off: f(path+".off", SInt, nil), Len: f(path+".len", SInt, nil), Cap: f(path+".cap", SInt, nil)}
	case *types.Interface:
		return &IfaceV{Ty: t, Tag: f(path+".tag", SInt, nil), Ref: f(path+".ref", SInt, nil)}
	case *types.Pointer:
		return &PtrV{Ty: t, Addr: f(path+".addr", SInt, nil)}
	case *types.Array:
		av := &ArrayV{Ty: t}
		for i := int64(0); i < u.Len(); i++ {
			av.Elems = append(av.Elems, build(u.Elem(), fmt.Sprintf("%s[%d]", path, i), f))
		}
		return av
	case *types.Tuple:
		tv := &TupleV{}
		for i := 0; i < u.Len(); i++ {
			tv.Elems = append(tv.Elems, build(u.At(i).Type(), fmt.Sprintf("%s#%d", path, i), f))
		}
		return tv
	case *types.Signature, *types.Map, *types.Chan:
		return &Scalar{T: f(path+".ref", SInt, nil), Ty: t}
	}
	panic(fmt.Sprintf("build: unsupported type %s", t))
}

// leaves lists the scalar terms of sv in build order.
func leaves(sv SV, out *[]*Term) {
	switch v := sv.(type) {
	case *Scalar:
		*out = append(*out, v.T)
	case *StructV:
		for _, f := range v.Fields {
			leaves(f, out)
		}
	case *SliceV:
		*out = append(*out, v.Base, v.Off, v.Len, v.Cap)
	case *IfaceV:
		*out = append(*out, v.Tag, v.Ref)
	case *PtrV:
		if v.Addr == nil {
			if v.LV != nil && v.LV.Heap != nil {
				// a pointer into the interior of a heap object that is stored in memory: it gets an opaque address of
				// its own. Reads through it (after loading it back) see arbitrary contents — a sound over-approximation;
				// a store through a pointer of that type is refused (see writeLV).
				pt := "?"
				if v.Ty != nil {
					pt = typeKey(v.Ty.Underlying().(*types.Pointer).Elem())
				}
				interiorTypes[pt] = true
				h := 0
				for _, p := range v.LV.Path {
					h = h*31 + p + 1
				}
				t := ufun("ptr.interior."+sanitize(pt), []string{SInt, SInt}, SInt, v.LV.Heap, intLit(int64(h)))
				// read-through model (see interiorOrigins): the pointer is marked as an interior one and remembers its owner
				if o := interiorOrigins[pt]; o != nil && !o.multi && v.LV.HeapT != nil && typeKey(o.T) == typeKey(v.LV.HeapT) && o.prefix == fieldPrefix(v.LV.HeapT, v.LV.Path) {
					pendingInterior = append(pendingInterior,
						not(eq(t, intLit(0))),
						ufun("ptr.isint."+sanitize(pt), []string{SInt}, SBool, t),
						eq(ufun("ptr.owner."+sanitize(pt), []string{SInt}, SInt, t), v.LV.Heap))
				}
				*out = append(*out, t)
				return
			}
			panic("leaves: static pointer has no address")
		}
		*out = append(*out, v.Addr)
	case *ArrayV:
		for _, e := range v.Elems {
			leaves(e, out)
		}
	case *TupleV:
		for _, e := range v.Elems {
			leaves(e, out)
		}
	default:
		panic(fmt.Sprintf("leaves: %T", sv))
	}
}

// rebuild makes an SV of type t from a leaf list (consumes from *in).
func rebuild(t types.Type, in *[]*Term) SV {
	return build(t, "", func(string, string, types.Type) *Term {
		x := (*in)[0]
		*in = (*in)[1:]
		return x
	})
}

func zeroOf(sort string) *Term {
	switch sort {
	case SInt:
		return intLit(0)
	case SBool:
		return tFalse
	case SStr:
		return strLit("")
	case SF64:
		return mk(SF64, "(_ +zero 11 53)")
	}
	panic("zeroOf " + sort)
}

func zeroValue(t types.Type) SV {
	return build(t, "", func(path, sort string, ty types.Type) *Term {
		if strings.HasSuffix(path, ".ns") && sort == SInt && ty == nil {
			return bigLit("(- 62135596800000000000)") // zero time.Time instant in ns since Unix epoch
		}
		return zeroOf(sort)
	})
}

// mergeSV = ite(c, a, b) leafwise.
func mergeSV(c *Term, a, b SV, t types.Type) SV {
	if a == b {
		return a // the very same symbolic value on both paths (keeps the identity of closures and interface payloads)
	}
	if pa, ok := a.(*PtrV); ok {
		pb := b.(*PtrV)
		if pa.LV != nil || pb.LV != nil {
			// result = if c then a else b
			switch {
			case pa.LV != nil && pb.LV != nil && sameLV(pa.LV, pb.LV):
				return &PtrV{Ty: pa.Ty, LV: pa.LV, Nil: ite(c, pa.nilCond(), pb.nilCond())}
			case pa.LV != nil && isNilPtrConst(pb):
				return &PtrV{Ty: pa.Ty, LV: pa.LV, Nil: ite(c, pa.nilCond(), tTrue)}
			case pb.LV != nil && isNilPtrConst(pa):
				return &PtrV{Ty: pb.Ty, LV: pb.LV, Nil: ite(c, tTrue, pb.nilCond())}
			}
			panic("merge of distinct static pointers")
		}
	}
	var la, lb []*Term
	leaves(a, &la)
	leaves(b, &lb)
	if len(la) != len(lb) {
		panic("mergeSV: shape mismatch")
	}
	out := make([]*Term, len(la))
	for i := range la {
		out[i] = ite(c, la[i], lb[i])
	}
	return rebuild(t, &out)
}

func sameLV(a, b *LVal) bool {
	if a.Alloc != b.Alloc || a.Heap != b.Heap || a.Idx != b.Idx || len(a.Path) != len(b.Path) {
		return false
	}
	if (a.Sl == nil) != (b.Sl == nil) {
		return false
	}
	if a.Sl != nil && (a.Sl.Base != b.Sl.Base || a.Sl.Off != b.Sl.Off) {
		return false
	}
	for i := range a.Path {
		if a.Path[i] != b.Path[i] {
			return false
		}
	}
	return true
}

// field access on SV
func fieldOf(sv SV, i int) SV {
	return sv.(*StructV).Fields[i]
}

func withField(sv SV, path []int, v SV) SV {
	if len(path) == 0 {
		return v
	}
	switch s := sv.(type) {
	case *StructV:
		n := &StructV{Ty: s.Ty, Fields: append([]SV{}, s.Fields...)}
		n.Fields[path[0]] = withField(s.Fields[path[0]], path[1:], v)
		return n
	case *ArrayV:
		n := &ArrayV{Ty: s.Ty, Elems: append([]SV{}, s.Elems...)}
		n.Elems[path[0]] = withField(s.Elems[path[0]], path[1:], v)
		return n
	}
	panic(fmt.Sprintf("withField on %T", sv))
}

func getPath(sv SV, path []int) SV {
	for _, i := range path {
		switch s := sv.(type) {
		case *StructV:
			sv = s.Fields[i]
		case *ArrayV:
			sv = s.Elems[i]
		default:
			panic(fmt.Sprintf("getPath on %T", sv))
		}
	}
	return sv
}

func typeAtPath(t types.Type, path []int) types.Type {
	for _, i := range path {
		switch u := t.Underlying().(type) {
		case *types.Struct:
			t = u.Field(i).Type()
		case *types.Array:
			t = u.Elem()
		default:
			panic("typeAtPath")
		}
	}
	return t
}

func typeKey(t types.Type) string {
	return types.TypeString(t, func(p *types.Package) string { return p.Name() })
}

var interiorTypes = map[string]bool{}

// interiorOrigins: for an element type F, the one place (owner type T, field path) from which the unit under
// verification takes pointers into the interior of heap objects and stores them in memory (found by a pre-pass over
// its code, registerInteriorOrigins). A load through a *F read from memory then reads through: if the pointer is an
// interior one (ptr.isint) the contents are the owner's field (ptr.owner), otherwise the F object at that address.
// Stores through such pointers stay refused (writeLV), so the two views never disagree.
type interiorOrigin struct {
	T      types.Type
	prefix string
	multi  bool
}

var interiorOrigins = map[string]*interiorOrigin{}
var pendingInterior []*Term

// fieldPrefix is the leaf-path prefix (as build() spells it) of the field reached by path in t; "" with ok=false
// semantics folded into "?" when the path leaves struct fields.
func fieldPrefix(t types.Type, path []int) string {
	out := ""
	for _, p := range path {
		u, ok := t.Underlying().(*types.Struct)
		if !ok || p >= u.NumFields() {
			return "?"
		}
		out += "." + u.Field(p).Name()
		t = u.Field(p).Type()
	}
	return out
}

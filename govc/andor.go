package main

import (
	"fmt"
	"os"
	"strings"
	"time"

	"golang.org/x/tools/go/packages"
	"golang.org/x/tools/go/ssa"
	"golang.org/x/tools/go/ssa/ssautil"
)

const andOrContracts = `
//@ spec evalVal(e Expression, ctx ExecutionContext) Value
//@ spec evalErr(e Expression, ctx ExecutionContext) error
//@ spec isNull(v Value) bool = v.TypeID == 0
//@ spec isTrue(v Value) bool = v.TypeID == 3 && v.Boolean
//@ spec isFalse(v Value) bool = v.TypeID == 3 && !v.Boolean
//@ spec okAt(c []Expression, ctx ExecutionContext, j int) bool = evalErr(c[j], ctx) == nil
//@ spec boolOrNull(v Value) bool = (v.TypeID == 0 && !v.Boolean) || v.TypeID == 3

//@ func (*And).Evaluate
//@   requires forall(j, 0, len(c.args), boolOrNull(evalVal(c.args[j], ctx)))
//@   loop 1 invariant 0 <= $k && $k <= len(c.args)
//@   loop 1 invariant forall(j, 0, $k, okAt(c.args, ctx, j) && !isFalse(evalVal(c.args[j], ctx)))
//@   loop 1 invariant nullEncountered == exists(j, 0, $k, isNull(evalVal(c.args[j], ctx)))
//@   ensures result1 == nil ==> boolOrNull(result0)
//@   ensures result1 == nil && isFalse(result0) ==> exists(j, 0, len(c.args), isFalse(evalVal(c.args[j], ctx)) && forall(i, 0, j, okAt(c.args, ctx, i)))
//@   ensures result1 == nil && isTrue(result0) ==> forall(j, 0, len(c.args), okAt(c.args, ctx, j) && isTrue(evalVal(c.args[j], ctx)))
//@   ensures result1 == nil && isNull(result0) ==> forall(j, 0, len(c.args), okAt(c.args, ctx, j) && !isFalse(evalVal(c.args[j], ctx))) && exists(j, 0, len(c.args), isNull(evalVal(c.args[j], ctx)))
//@   ensures result1 != nil ==> exists(j, 0, len(c.args), !okAt(c.args, ctx, j) && forall(i, 0, j, okAt(c.args, ctx, i) && !isFalse(evalVal(c.args[i], ctx))))

//@ func (*Or).Evaluate
//@   requires forall(j, 0, len(c.args), boolOrNull(evalVal(c.args[j], ctx)))
//@   loop 1 invariant 0 <= $k && $k <= len(c.args)
//@   loop 1 invariant forall(j, 0, $k, okAt(c.args, ctx, j) && !isTrue(evalVal(c.args[j], ctx)))
//@   loop 1 invariant nullEncountered == exists(j, 0, $k, isNull(evalVal(c.args[j], ctx)))
//@   ensures result1 == nil ==> boolOrNull(result0)
//@   ensures result1 == nil && isTrue(result0) ==> exists(j, 0, len(c.args), isTrue(evalVal(c.args[j], ctx)) && forall(i, 0, j, okAt(c.args, ctx, i)))
//@   ensures result1 == nil && isFalse(result0) ==> forall(j, 0, len(c.args), okAt(c.args, ctx, j) && isFalse(evalVal(c.args[j], ctx)))
//@   ensures result1 == nil && isNull(result0) ==> forall(j, 0, len(c.args), okAt(c.args, ctx, j) && !isTrue(evalVal(c.args[j], ctx))) && exists(j, 0, len(c.args), isNull(evalVal(c.args[j], ctx)))
`

func andOrMain() {
	t0 := time.Now()
	cfg := &packages.Config{Mode: packages.LoadAllSyntax, Dir: "/repo", BuildFlags: []string{"-tags=verif"}}
	if m := os.Getenv("MUTANT"); m != "" { // MUTANT=/repo/path.go=/tmp/mutated.go
		kv := strings.SplitN(m, "=", 2)
		data, err := os.ReadFile(kv[1])
		if err != nil {
			panic(err)
		}
		cfg.Overlay = map[string][]byte{kv[0]: data}
	}
	pkgs, err := packages.Load(cfg, "github.com/cube2222/octosql/execution")
	if err != nil {
		panic(err)
	}
	prog, spkgs := ssautil.AllPackages(pkgs, ssa.NaiveForm|ssa.GlobalDebug|ssa.InstantiateGenerics)
	prog.Build()
	pkg := spkgs[0]
	cs := parseContracts(andOrContracts)
	namedTypes["Value"] = pkg.Prog.ImportedPackage("github.com/cube2222/octosql/octosql").Type("Value").Type()
	fmt.Printf("loaded in %.1fs\n", time.Since(t0).Seconds())
	for _, tn := range []string{"And", "Or"} {
		T := pkg.Type(tn).Type()
		fn := prog.LookupMethod(types_NewPointer(T), pkg.Pkg, "Evaluate")
		e := newExec("execution.(*"+tn+").Evaluate", prog.Fset)
		e.cs = cs
		e.pkg = pkg.Pkg
		c := cs.Funcs["(*"+tn+").Evaluate"]
		e.contracts = map[*ssa.Function]*FuncContract{fn: c}
		st := newState()
		recv := e.freshSV(fn.Params[0].Type(), "c", tTrue, true)
		ctx := e.freshSV(fn.Params[1].Type(), "ctx", tTrue, true)
		// receiver non-nil and its args slice sane
		rp := recv.(*PtrV)
		e.assume(lt(intLit(0), rp.Addr))
		argsSl := e.loadObj(st, rp.Addr, T).(*StructV).Fields[0].(*SliceV)
		e.assume(and(le(intLit(0), argsSl.Len), le(argsSl.Len, argsSl.Cap), le(argsSl.Len, bigLit("MAX64"))))
		fr0 := &Frame{fn: fn, regs: map[ssa.Value]SV{fn.Params[0]: recv, fn.Params[1]: ctx}}
		env := &SpecEnv{e: e, fr: fr0, st: st, bound: map[string]SV{}, cs: cs, pkg: pkg.Pkg}
		for _, r := range c.Requires {
			e.assume(scal(env.eval(r)))
		}
		e.run(fn, st, []SV{recv, ctx}, nil, 0)
		counts := map[string]int{}
		for _, o := range e.obls {
			sc := script(e.assumes[:o.NAssum], o.Cond, nil)
			v, _, _, secs := solve(sc, 20)
			counts[v]++
			mark := ""
			if v != "unsat" {
				mark = "   <<<<"
				if os.Getenv("DUMP") != "" {
					os.WriteFile("/dev/shm/"+sanitize(o.Name)+".smt2", []byte(sc), 0644)
				}
			}
			fmt.Printf("  %-8s %-60s %.2fs%s\n", v, o.Name, secs, mark)
		}
		fmt.Println(tn, counts)
		for n := range e.notes {
			fmt.Println("  note:", n)
		}
	}
}

#!/bin/bash
# usage: seedtest.sh <prop> <seed dir with patch.diff [+ demo *_test.go]> [check-prop...]
# 1. confirms the seeded change in a scratch worktree of /repo: compiles, baseline passes, demo fails with / passes without;
# 2. applies it to /repo, runs the named checks (default: <prop>), and undoes it straight afterwards.
export GOFLAGS=-mod=mod GOPROXY=off GOSUMDB=off GOTOOLCHAIN=local
prop=$1; dir=$2; shift 2; checks=${@:-$prop}
if [ -n "$(git -C /repo status --porcelain)" ]; then echo "REFUSING: /repo has uncommitted changes (they would be lost by the checkout that undoes the seed)"; exit 2; fi
wt=$(mktemp -d -u -p /dev/shm seedwt-XXXX)
git -C /repo worktree add -q --detach $wt HEAD || exit 2
trap "git -C /repo worktree remove --force $wt" EXIT
cd $wt
demos=$(ls $dir/*_test.go 2>/dev/null)
meta_pkg=""
for d in $demos; do
  pkg=$(python3 - "$dir" "$d" <<'PY'
import json,sys,os,re
d=sys.argv[2]
m=json.load(open(os.path.join(sys.argv[1],'meta.json')))
t=m.get('demo','')
t=json.dumps(t) if not isinstance(t,str) else t
mm=re.search(r'((?:[\w.-]+/)+)'+re.escape(os.path.basename(d)),t)
p=mm.group(1).rstrip('/') if mm else ''
p=re.sub(r'^.*?tmp/seed(?:wt)?/[^/]+/','',p)
p=re.sub(r'^/?tmp/seed(?:wt)?/[^/]+/?','',p)
print(p)
PY
)
  [ -z "$pkg" ] && { echo "cannot locate package dir for $d"; continue; }
  pkg=${pkg#/tmp/seed/*/}; pkg=$(echo $pkg | sed 's#^/tmp/seed/C[0-9]*/##')
  cp $d $wt/$pkg/; meta_pkg="$meta_pkg ./$pkg/"
done
echo "== without change: demo must pass"; go test -vet=off -count=1 $meta_pkg 2>&1 | tail -3
git apply $dir/patch.diff || { echo "patch does not apply to /repo HEAD"; exit 2; }
echo "== with change: build + baseline"; go build ./... && (rm -f $(for d in $demos; do echo $wt/*/$(basename $d) $wt/*/*/$(basename $d); done) ; go test -vet=off -count=1 ./... 2>&1 | grep -v "no test files" | grep -v "^ok" | tail -5; echo baseline-done)
for d in $demos; do p=$(echo $meta_pkg | tr ' ' '\n' | head -1); cp $d $wt/${p#./}; done
echo "== with change: demo must fail"; go test -vet=off -count=1 $meta_pkg 2>&1 | tail -6
cd /verif
git -C /repo apply $dir/patch.diff || exit 2
for c in $checks; do echo "== check $c on the changed tree"; ./bin/govc check -prop $c -noevidence 2>&1 | grep -E "^VIOLATION|^KNOWN|tier=" | cut -c1-260; done
git -C /repo checkout -- .
git -C /repo status --short | head -3

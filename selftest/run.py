#!/usr/bin/env python3
"""Must-fail / must-pass corpus for govc.

Each entry of corpus.json is a small edit of /repo (exact string replacement in one file) that compiles and passes the
60 baseline tests. It is applied in a scratch git worktree of /repo's HEAD (under /dev/shm, removed afterwards); the
check of the named property is run against that worktree (GOVC_REPO) and must report a VIOLATION whose obligation
matches `expect` (kind "mutant"), or must stay silent (kind "control").
usage: run.py [-k substring] [--prop Cxx] [--keep]
"""
import json, os, subprocess, sys, shutil, tempfile, fnmatch, argparse
ap=argparse.ArgumentParser(); ap.add_argument('-k',default=''); ap.add_argument('--prop',default=''); ap.add_argument('--tier',default='quick'); ap.add_argument('-v',action='store_true')
a=ap.parse_args()
here=os.path.dirname(os.path.abspath(__file__))
corpus=json.load(open(os.path.join(here,'corpus.json')))
env=dict(os.environ,GOFLAGS='-mod=mod',GOPROXY='off',GOSUMDB='off',GOTOOLCHAIN='local')
ok=True; n=0
for m in corpus:
    if a.k and a.k not in m['name']: continue
    if a.prop and a.prop!=m['prop']: continue
    n+=1
    wt=tempfile.mkdtemp(prefix='govc-wt-',dir='/dev/shm'); os.rmdir(wt)
    subprocess.run(['git','-C','/repo','worktree','add','-q','--detach',wt,'HEAD'],check=True)
    try:
        # uncommitted contract files of the working tree are part of the tree under test
        for root,_,files in os.walk('/repo'):
            if '/.git' in root: continue
            for f in files:
                if f=='zz_verif_contracts.go':
                    rel=os.path.relpath(os.path.join(root,f),'/repo'); shutil.copy(os.path.join(root,f),os.path.join(wt,rel))
        for ed in m['edits']:
            p=os.path.join(wt,ed['file']); s=open(p).read()
            if s.count(ed['old'])!=1:
                print(f"CORPUS-ERROR {m['name']}: pattern occurs {s.count(ed['old'])} times in {ed['file']}"); ok=False; continue
            open(p,'w').write(s.replace(ed['old'],ed['new']))
        b=subprocess.run(['go','build','./...'],cwd=wt,env=env,capture_output=True,text=True)
        if b.returncode!=0:
            print(f"CORPUS-ERROR {m['name']}: does not compile\n{b.stderr[:500]}"); ok=False; continue
        e2=dict(env,GOVC_REPO=wt,GOVC_VERIF_EVIDENCE_OFF='1')
        r=subprocess.run(['/verif/bin/govc','check','-prop',m['prop'],'-tier',a.tier,'-noevidence'],env=e2,capture_output=True,text=True,cwd='/verif')
        viol=[l for l in r.stdout.splitlines() if l.startswith('VIOLATION')]
        if m.get('kind','mutant')=='control':
            good = r.returncode==0 and not viol
            print(('PASS ' if good else 'FAIL ')+f"control {m['prop']} {m['name']}: exit={r.returncode} violations={len(viol)}")
        else:
            def glob(g,x):
                import re
                return re.fullmatch('.*'.join(re.escape(p) for p in g.split('*')), x) is not None
            hit=[l for l in viol if glob(m['expect'], l.split('obligation=')[1].replace(' no-failing-input-found','') if 'obligation=' in l else '')]
            good = r.returncode==1 and len(hit)>0
            print(('PASS ' if good else 'FAIL ')+f"mutant  {m['prop']} {m['name']}: exit={r.returncode} violations={len(viol)} matching '{m['expect']}': {len(hit)}")
        if not good or a.v:
            print('\n'.join('    '+l for l in (r.stdout+r.stderr).splitlines()[-25:]))
        ok = ok and good
    finally:
        subprocess.run(['git','-C','/repo','worktree','remove','--force',wt])
print(f"{n} corpus entries run:", "ALL AS EXPECTED" if ok else "SOME NOT AS EXPECTED")
sys.exit(0 if ok else 1)

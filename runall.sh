#!/bin/bash
# usage: runall.sh [-j N] [props...]   — runs the quick checks (default: every claimed property), N at a time, prints one summary line each
cd "$(dirname "$0")"
j=2
if [ "$1" = "-j" ]; then j=$2; shift 2; fi
props=${@:-$(python3 -c "import json;print(' '.join(c['property_id'] for c in json.load(open('MANIFEST.json'))['checks']))")}
mkdir -p /dev/shm/runall
printf '%s\n' $props | xargs -P $j -I{} sh -c './check {} --tier ${VERIF_TIER:-quick} > /dev/shm/runall/{}.log 2>&1; echo "exit=$?" >> /dev/shm/runall/{}.log'
for p in $props; do grep -E "^VIOLATION|^KNOWN|MACHINERY" /dev/shm/runall/$p.log | cut -c1-250; grep -E "tier=" /dev/shm/runall/$p.log | tr '\n' ' '; tail -1 /dev/shm/runall/$p.log; done
